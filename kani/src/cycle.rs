//! C18.a: one step of `SimpleCycle::try_extend` from an *arbitrary valid cycle* (inductive step: covers
//! histories of any length).  The cycle state is symbolic: successor array over N planes with a single
//! cycle of `len >= 3` through `start`, self-pointers elsewhere.  `BASE` shifts the plane indices so that
//! large indices (cells with many clipping planes) are covered as well.
use meshless_voronoi::verif_hooks::SimpleCycle;

const N: usize = 6;

/// is `ptrs` (restricted to BASE..BASE+N) a valid cycle state?  returns the cycle as a list if so
fn valid(ptrs: &[usize], base: usize, start: usize, len: usize, min_len: usize, out: &mut [usize; N]) -> bool {
    if len < min_len || len > N || start < base || start >= base + N {
        return false;
    }
    let mut seen = [false; N];
    let mut cur = start;
    let mut k = 0;
    while k < N {
        if k < len {
            if cur < base || cur >= base + N || seen[cur - base] {
                return false;
            }
            seen[cur - base] = true;
            out[k] = cur;
            cur = ptrs[cur];
        }
        k += 1;
    }
    if cur != start {
        return false;
    }
    let mut i = 0;
    while i < N {
        if !seen[i] && ptrs[base + i] != base + i {
            return false;
        }
        i += 1;
    }
    true
}

fn step(base: usize) {
    let total = base + N;
    // an ARBITRARY valid cycle x[0] -> x[1] -> ... -> x[len-1] -> x[0] over the planes base..base+N with start = x[0], built through the
    // public API only (init + outward extensions), so that the state is consistent whatever the internal representation is
    let x: [usize; N] = kani::any();
    let len: usize = kani::any();
    kani::assume(len >= 3 && len <= N);
    let mut i = 0;
    while i < N {
        kani::assume(x[i] >= base && x[i] < total);
        let mut j = 0;
        while j < i {
            kani::assume(x[j] != x[i]);
            j += 1;
        }
        i += 1;
    }
    let start = x[0];
    let mut cyc = SimpleCycle::new(total);
    cyc.init(x[0], x[1], x[2]);
    let mut m = 3;
    while m < N {
        if m < len {
            // insert x[m] between x[m-1] and x[0]: a triangle sharing exactly the edge x[m-1] -> x[0]
            let r = cyc.try_extend(x[m], x[0], x[m - 1]);
            assert!(r.is_ok());
        }
        m += 1;
    }
    let mut before = [0usize; N];
    assert!(cyc.len == len);
    assert!(valid(cyc.vh_ptrs(), base, cyc.vh_start(), cyc.len, 3, &mut before));
    assert!(cyc.vh_start() == start);
    let mut k = 0;
    while k < N {
        if k < len {
            assert!(before[k] == x[k]);
        }
        k += 1;
    }
    let a: usize = kani::any();
    let b: usize = kani::any();
    let c: usize = kani::any();
    kani::assume(a >= base && a < total && b >= base && b < total && c >= base && c < total);
    kani::assume(a != b && b != c && a != c);
    let old: Vec<usize> = cyc.vh_ptrs().to_vec();
    let r = cyc.try_extend(a, b, c);
    let mut after = [0usize; N];
    match r {
        Ok(()) => {
            // still a valid cycle, length changed by exactly one, start stays on the cycle
            assert!(cyc.len == len + 1 || cyc.len + 1 == len);
            // (a 3-cycle whose own reversed triangle is attached degenerates to a 2-cycle: no real cell has two vertices with the same
            // three planes, but the successor structure is still a valid cycle)
            assert!(valid(cyc.vh_ptrs(), base, cyc.vh_start(), cyc.len, 2, &mut after));
            // the new cycle is the old one with one plane inserted into / removed from exactly one edge, and the triangle
            // (a,b,c) is a rotation (x, y, z) with the edge y <- z (resp. the corner) on the old boundary:
            if cyc.len == len + 1 {
                kani::cover!(true, "a triangle sharing one edge extends the cycle");
                // exactly one of a,b,c is new
                let na = old[a] == a;
                let nb = old[b] == b;
                let nc = old[c] == c;
                assert!((na as u8) + (nb as u8) + (nc as u8) == 1);
            } else {
                kani::cover!(true, "a triangle sharing two edges removes a corner");
                assert!(old[a] != a && old[b] != b && old[c] != c);
            }
        }
        Err(()) => {
            // state untouched
            assert!(cyc.len == len && cyc.vh_start() == start);
            let mut k = 0;
            while k < total {
                assert!(cyc.vh_ptrs()[k] == old[k]);
                k += 1;
            }
        }
    }
    core::mem::forget(cyc);
    core::mem::forget(old);
}

#[kani::proof]
#[kani::unwind(8)]
fn cycle_step_base0() {
    step(0);
}

/// same with plane indices 14..19 (beyond any 16-entry fixed-size buffer)
#[kani::proof]
#[kani::unwind(22)]
fn cycle_step_base14() {
    step(14);
}

/// same with plane indices 62..67 (cells with more than 64 clipping planes occur for clustered inputs)
#[kani::proof]
#[kani::unwind(70)]
fn cycle_step_base62() {
    step(62);
}
