//! Engine K: Kani proof harnesses over the compiled crate (feature `verif-hooks`, no rayon).
//! One `#[kani::proof]` per obligation; bounds are stated next to each harness and in DESIGN.md.
#![allow(dead_code)]
#![allow(unused_imports)]

#[cfg(kani)]
mod gridmap;
#[cfg(kani)]
mod leaves;
#[cfg(kani)]
mod connectivity;
#[cfg(kani)]
mod cycle;
