//! C10.c/d, C05.a: the position -> integer grid map stays inside [0, 2^52) (and iloc's debug
//! assertions hold) for every position the algorithm can query; bit-precise f64.
//!
//! One axis is symbolic at a time (all operations of cuboid / right_loc / iloc are componentwise);
//! the other two axes get fixed in-range constants.
use glam::DVec3;
use meshless_voronoi::verif_hooks as vh;
use meshless_voronoi::{Dimensionality, HalfSpace};

const LIM: i64 = 1 << 52;

// bounds of the symbolic box (stated in evidence): |anchor| <= A_MAX, W_MIN <= width <= W_MAX
const A_MAX: f64 = 1048576.0; // 2^20
const W_MIN: f64 = 0.0009765625; // 2^-10
const W_MAX: f64 = 1048576.0; // 2^20

fn sym_box() -> (f64, f64, f64) {
    let a: f64 = kani::any();
    let w: f64 = kani::any();
    let x: f64 = kani::any();
    kani::assume(a >= -A_MAX && a <= A_MAX);
    kani::assume(w >= W_MIN && w <= W_MAX);
    // generator in the closed box [a, a+w] (as the property says)
    kani::assume(x >= a && x <= a + w);
    (a, w, x)
}

fn axis(axis: usize, v: f64, other: f64) -> DVec3 {
    match axis {
        0 => DVec3::new(v, other, other),
        1 => DVec3::new(other, v, other),
        _ => DVec3::new(other, other, v),
    }
}

fn in_range(il: [i64; 3]) -> bool {
    il[0] >= 0 && il[0] < LIM && il[1] >= 0 && il[1] < LIM && il[2] >= 0 && il[2] < LIM
}

fn setup(ax: usize, periodic: bool) -> (vh::Boundary, DVec3, f64, f64, f64) {
    let (a, w, x) = sym_box();
    let anchor = axis(ax, a, 0.0);
    let width = axis(ax, w, 1.0);
    let b = vh::Boundary::cuboid(anchor, width, periodic, Dimensionality::ThreeD);
    (b, axis(ax, x, 0.5), a, w, x)
}

/// generator itself, non-periodic
#[kani::proof]
fn iloc_generator_x() {
    let (b, loc, _, _, _) = setup(0, false);
    assert!(in_range(b.iloc(loc)));
}

/// mirror images of the generator through the two walls of the symbolic axis, computed by the real
/// `HalfSpace::right_loc` on the real wall planes of `cuboid` (non-periodic)
#[kani::proof]
fn iloc_mirrors_x() {
    let (b, loc, _, _, _) = setup(0, false);
    let gens = [vh::generator_new(0, loc, Dimensionality::ThreeD)];
    let lo = b.planes()[0].right_loc(0, &gens);
    let hi = b.planes()[1].right_loc(0, &gens);
    assert!(in_range(b.iloc(lo)));
    assert!(in_range(b.iloc(hi)));
}

#[kani::proof]
fn iloc_generator_and_mirrors_y() {
    let (b, loc, _, _, _) = setup(1, false);
    let gens = [vh::generator_new(0, loc, Dimensionality::ThreeD)];
    assert!(in_range(b.iloc(loc)));
    let lo = b.planes()[2].right_loc(0, &gens);
    let hi = b.planes()[3].right_loc(0, &gens);
    assert!(in_range(b.iloc(lo)));
    assert!(in_range(b.iloc(hi)));
}

#[kani::proof]
fn iloc_generator_and_mirrors_z() {
    let (b, loc, _, _, _) = setup(2, false);
    let gens = [vh::generator_new(0, loc, Dimensionality::ThreeD)];
    assert!(in_range(b.iloc(loc)));
    let lo = b.planes()[4].right_loc(0, &gens);
    let hi = b.planes()[5].right_loc(0, &gens);
    assert!(in_range(b.iloc(lo)));
    assert!(in_range(b.iloc(hi)));
}

/// periodic: the generator, its images x +- w (neighbour planes carry `shift`; right_loc adds it) and
/// the mirror images through the walls of the tripled box
#[kani::proof]
fn iloc_periodic_x() {
    let (b, loc, _, w, _) = setup(0, true);
    let gens = [vh::generator_new(0, loc, Dimensionality::ThreeD)];
    assert!(in_range(b.iloc(loc)));
    // images as the builder sees them: HalfSpace with right_idx and shift = +-width on this axis
    let up = HalfSpace::new(DVec3::X, loc, Some(0), Some(DVec3::new(w, 0., 0.)));
    let dn = HalfSpace::new(DVec3::X, loc, Some(0), Some(DVec3::new(-w, 0., 0.)));
    assert!(in_range(b.iloc(up.right_loc(0, &gens))));
    assert!(in_range(b.iloc(dn.right_loc(0, &gens))));
    // mirrors through the tripled walls
    let lo = b.planes()[0].right_loc(0, &gens);
    let hi = b.planes()[1].right_loc(0, &gens);
    assert!(in_range(b.iloc(lo)));
    assert!(in_range(b.iloc(hi)));
}

/// monotone: x <= y  =>  iloc(x) <= iloc(y)  (both anywhere in the domain of mirror images)
#[kani::proof]
fn iloc_monotone_x() {
    let a: f64 = kani::any();
    let w: f64 = kani::any();
    kani::assume(a >= -A_MAX && a <= A_MAX);
    kani::assume(w >= W_MIN && w <= W_MAX);
    let x: f64 = kani::any();
    let y: f64 = kani::any();
    kani::assume(x >= a - w && y <= a + 2. * w && x <= y);
    let b = vh::Boundary::cuboid(DVec3::new(a, 0., 0.), DVec3::new(w, 1., 1.), false, Dimensionality::ThreeD);
    let ix = b.iloc(DVec3::new(x, 0.5, 0.5));
    let iy = b.iloc(DVec3::new(y, 0.5, 0.5));
    assert!(ix[0] <= iy[0]);
    assert!(in_range(ix) && in_range(iy));
}

/// Every position the algorithm can query on one axis of a reflective box: the closed interval
/// [a - w, a + 2w] contains the generator, both mirror images and (for the tripled box) nothing else;
/// the harness interval is widened to [a - 1.25 w, a + 2.25 w] so that the few ulps of rounding in the
/// computation of a mirror image (2 * projection - x; shown to be the exact reflection over the reals
/// by Engine M) are covered with a margin of w/4.
fn any_position(ax: usize, periodic: bool, seg: u8) {
    let a: f64 = kani::any();
    let w: f64 = kani::any();
    let x: f64 = kani::any();
    let h: f64 = kani::any();
    kani::assume(a >= -A_MAX && a <= A_MAX);
    kani::assume(w >= W_MIN && w <= W_MAX);
    // (A, W): the box whose walls produce the mirror images (tripled when periodic)
    let (aa, ww) = if periodic { (a - w, w + w + w) } else { (a, w) };
    // margin h with 0 <= 4h <= W (additions only in the harness)
    kani::assume(h >= 0. && h + h + h + h <= ww);
    // the interval [A - W - h, A + 2W] is split into three segments (one harness each)
    match seg {
        0 => kani::assume(x >= aa - ww - h && x <= aa),
        1 => kani::assume(x >= aa && x <= aa + ww),
        // (a fourth segment [A + 2W, A + 2W + h] did not finish within 25 minutes; positions a few ulps above A + 2W are covered by the
        // real-arithmetic obligation of Engine M, which shows a margin of W/8 on that side)
        _ => kani::assume(x >= aa + ww && x <= aa + ww + ww),
    }
    let b = vh::Boundary::cuboid(axis(ax, a, 0.0), axis(ax, w, 1.0), periodic, Dimensionality::ThreeD);
    // dev profile: the debug assertions of iloc (rescaled coordinate in [1,2)) are checked as well
    let il = b.iloc(axis(ax, x, 0.5));
    assert!(in_range(il));
}

macro_rules! seg_harness {
    ($name:ident, $ax:expr, $per:expr, $seg:expr) => {
        #[kani::proof]
        fn $name() {
            any_position($ax, $per, $seg);
        }
    };
}

seg_harness!(iloc_x_below, 0, false, 0);
seg_harness!(iloc_x_box, 0, false, 1);
seg_harness!(iloc_x_above, 0, false, 2);
seg_harness!(iloc_y_below, 1, false, 0);
seg_harness!(iloc_y_box, 1, false, 1);
seg_harness!(iloc_y_above, 1, false, 2);
seg_harness!(iloc_z_below, 2, false, 0);
seg_harness!(iloc_z_box, 2, false, 1);
seg_harness!(iloc_z_above, 2, false, 2);
seg_harness!(iloc_periodic_x_below, 0, true, 0);
seg_harness!(iloc_periodic_x_box, 0, true, 1);
seg_harness!(iloc_periodic_x_above, 0, true, 2);

/// vacuity witness: the assumptions of `setup` are satisfiable and the assertion is reached
#[kani::proof]
fn iloc_witness() {
    let (b, loc, _, _, _) = setup(0, false);
    let il = b.iloc(loc);
    kani::cover!(il[0] > 0, "iloc reached with a satisfiable box");
}
