//! C12: `Voronoi::finalize`, `VoronoiCell::{face_indices, neighbour_ids}` over arbitrary face lists,
//! including cells that were not constructed (made by the real `VoronoiCell::unconstructed`).
//!
//! Bounds: N = 3 cells, M = 2 faces (3 faces exhaust the memory of the SAT back end: measured); labels, shifts and the activity mask are symbolic.
//! Preconditions are the producer's invariants (each established by C03/C07 obligations):
//! `left` is a constructed cell; an unshifted face never has right == left; at most one unshifted
//! face per unordered pair of cells; a face with a shift has a right generator.
use glam::DVec3;
use meshless_voronoi::verif_hooks as vh;
use meshless_voronoi::{ConvexCell, Dimensionality, HalfSpace, Voronoi, VoronoiCell, VoronoiFace, VoronoiIntegrator};

const N: usize = 3;
const M: usize = 2;

fn base_face() -> VoronoiFace {
    let planes = vec![HalfSpace::new(DVec3::X, DVec3::ZERO, None, None)];
    let cell = ConvexCell::vh_new(DVec3::ZERO, 0, planes, vec![], Dimensionality::ThreeD);
    let f = VoronoiFace::vh_init(&cell, 0);
    core::mem::forget(cell);
    f
}

struct Spec {
    left: [usize; M],
    right_some: [bool; M],
    right: [usize; M],
    shifted: [bool; M],
    mask: [bool; N],
}

fn any_spec() -> Spec {
    let s = Spec {
        left: kani::any(),
        right_some: kani::any(),
        right: kani::any(),
        shifted: kani::any(),
        mask: kani::any(),
    };
    let mut f = 0;
    while f < M {
        kani::assume(s.left[f] < N && s.right[f] < N);
        kani::assume(s.mask[s.left[f]]);
        kani::assume(!s.shifted[f] || s.right_some[f]);
        kani::assume(!(s.right_some[f] && !s.shifted[f] && s.right[f] == s.left[f]));
        let mut g = 0;
        while g < f {
            let both_plain = s.right_some[f] && !s.shifted[f] && s.right_some[g] && !s.shifted[g];
            let same_pair = (s.left[f] == s.left[g] && s.right[f] == s.right[g]) || (s.left[f] == s.right[g] && s.right[f] == s.left[g]);
            kani::assume(!(both_plain && same_pair));
            g += 1;
        }
        f += 1;
    }
    s
}

fn assemble(s: &Spec) -> Voronoi {
    let base = base_face();
    let mut faces = Vec::with_capacity(M);
    let mut f = 0;
    while f < M {
        let mut face = base.clone();
        face.set_left(s.left[f]);
        if s.right_some[f] {
            face.set_right(s.right[f]);
        }
        if s.shifted[f] {
            face.set_shift(DVec3::X);
        }
        faces.push(face);
        f += 1;
    }
    let mut cells = Vec::with_capacity(N);
    let mut c = 0;
    while c < N {
        if s.mask[c] {
            cells.push(VoronoiCell::vh_init(DVec3::ZERO, DVec3::ZERO, 1., 1., c));
        } else {
            // the real constructor of cells that were not constructed (both creation sites are tied to it by Engine M, C07.b)
            cells.push(VoronoiCell::vh_unconstructed(c));
        }
        c += 1;
    }
    Voronoi::vh_assemble(cells, faces, DVec3::ZERO, DVec3::ONE, Dimensionality::ThreeD, false)
}

fn listed(s: &Spec, c: usize, f: usize) -> bool {
    s.left[f] == c || (s.right_some[f] && !s.shifted[f] && s.right[f] == c)
}

#[kani::proof]
#[kani::unwind(8)]
fn finalize_connectivity() {
    let s = any_spec();
    let v = assemble(&s);
    // offsets are the prefix sums of the face counts; the total equals the array length
    let mut off = 0;
    let mut c = 0;
    while c < N {
        let cell = &v.cells()[c];
        let mut cnt = 0;
        let mut f = 0;
        while f < M {
            if listed(&s, c, f) {
                cnt += 1;
            }
            f += 1;
        }
        assert!(cell.face_connections_offset() == off);
        assert!(cell.face_count() == cnt);
        // the slice lists exactly the faces of this cell, each once, in face order
        let idx = cell.face_indices(&v);
        assert!(idx.len() == cnt);
        let mut k = 0;
        let mut f = 0;
        while f < M {
            if listed(&s, c, f) {
                assert!(idx[k] == f);
                k += 1;
            }
            f += 1;
        }
        off += cnt;
        c += 1;
    }
    assert!(v.cell_face_connections().len() == off);
    kani::cover!(s.right_some[0] && !s.shifted[0] && !s.mask[s.right[0]], "a face towards an unconstructed cell");
    kani::cover!(s.shifted[1], "a periodic face");
    kani::cover!(s.left[0] == s.left[1], "two faces of the same left cell");
    core::mem::forget(v);
}

#[kani::proof]
#[kani::unwind(8)]
fn neighbour_ids_spec() {
    let s = any_spec();
    let v = assemble(&s);
    let mut c = 0;
    while c < N {
        let cell = &v.cells()[c];
        // expected: other side of the listed non-boundary non-periodic faces, in face order
        let mut exp = [usize::MAX; M];
        let mut n_exp = 0;
        let mut f = 0;
        while f < M {
            if listed(&s, c, f) && s.right_some[f] && !s.shifted[f] {
                exp[n_exp] = if s.left[f] == c { s.right[f] } else { s.left[f] };
                n_exp += 1;
            }
            f += 1;
        }
        let mut k = 0;
        for nb in cell.neighbour_ids(&v) {
            assert!(k < n_exp);
            assert!(nb == exp[k]);
            assert!(nb != c); // never the cell itself - also for cells that were not constructed
            k += 1;
        }
        assert!(k == n_exp);
        // no duplicates
        if n_exp >= 2 {
            assert!(exp[0] != exp[1]);
        }
        c += 1;
    }
    kani::cover!(!s.mask[1] && s.right_some[0] && !s.shifted[0] && s.right[0] == 1 && s.left[0] == 0,
        "unconstructed cell 1 with a face from constructed cell 0");
    core::mem::forget(v);
}
