//! Leaf float kernels decided bit-precisely (C05.b/c, C08.a).
use glam::DVec3;
use meshless_voronoi::verif_hooks as vh;
use meshless_voronoi::{Dimensionality, HalfSpace};

fn any_vec() -> DVec3 {
    DVec3::new(kani::any(), kani::any(), kani::any())
}

fn finite(v: DVec3) -> bool {
    v.x.is_finite() && v.y.is_finite() && v.z.is_finite()
}

/// C08.a: unused coordinates are erased for *any* f64 bit pattern; used ones are untouched.
#[kani::proof]
fn generator_new_erases_unused() {
    let loc = any_vec();
    let g1 = vh::generator_new(7, loc, Dimensionality::OneD).loc();
    assert!(g1.x.to_bits() == loc.x.to_bits());
    assert!(g1.y.to_bits() == 0 && g1.z.to_bits() == 0);
    let g2 = vh::generator_new(7, loc, Dimensionality::TwoD).loc();
    assert!(g2.x.to_bits() == loc.x.to_bits() && g2.y.to_bits() == loc.y.to_bits());
    assert!(g2.z.to_bits() == 0);
    let g3 = vh::generator_new(7, loc, Dimensionality::ThreeD).loc();
    assert!(g3.x.to_bits() == loc.x.to_bits() && g3.y.to_bits() == loc.y.to_bits() && g3.z.to_bits() == loc.z.to_bits());
    assert!(vh::generator_new(7, loc, Dimensionality::TwoD).id() == 7);
}

/// C08.c: Dimensionality::vector_is_valid
#[kani::proof]
fn vector_is_valid_spec() {
    let v = any_vec();
    assert!(Dimensionality::OneD.vector_is_valid(v) == (v.y == 0. && v.z == 0.));
    assert!(Dimensionality::TwoD.vector_is_valid(v) == (v.z == 0.));
    assert!(Dimensionality::ThreeD.vector_is_valid(v));
}

const BIG: f64 = 1e150;

/// C05.b: for all finite n, p (|component| <= 1e150 so that n.|p| stays finite): errb > 0 (the
/// debug_assert cannot fire), errb >= EPSILON, d = n.p
#[kani::proof]
fn halfspace_new_errb_positive() {
    let n = any_vec();
    let p = any_vec();
    kani::assume(finite(n) && finite(p));
    kani::assume(n.abs().max_element() <= BIG && p.abs().max_element() <= BIG);
    let h = HalfSpace::new(n, p, None, None);
    assert!(h.vh_errb() >= 1e-13);
    assert!(h.vh_errb().is_finite());
    assert!(h.vh_d() == n.dot(p));
}

/// C05.c: clip returns 0 only inside the error band, otherwise the sign; never NaN for finite inputs
#[kani::proof]
fn halfspace_clip_spec() {
    let n = any_vec();
    let p = any_vec();
    let v = any_vec();
    kani::assume(finite(n) && finite(p) && finite(v));
    kani::assume(n.abs().max_element() <= 1e100 && p.abs().max_element() <= 1e100 && v.abs().max_element() <= 1e100);
    let h = HalfSpace::new(n, p, None, None);
    let c = h.clip(v);
    let raw = n.dot(v) - h.vh_d();
    assert!(c == 0. || c == 1. || c == -1.);
    if raw.abs() < h.vh_errb() {
        assert!(c == 0.);
    } else if raw > 0. {
        assert!(c == 1.);
    } else {
        assert!(c == -1.);
    }
}

/// C05.b on one axis (the other components are exact zeros): bit-precise, any finite n_x, p_x with |.| <= 1e150
#[kani::proof]
fn halfspace_new_errb_positive_axis() {
    let nx: f64 = kani::any();
    let px: f64 = kani::any();
    kani::assume(nx.is_finite() && px.is_finite() && nx.abs() <= BIG && px.abs() <= BIG);
    let h = HalfSpace::new(DVec3::new(nx, 0., 0.), DVec3::new(px, 0., 0.), None, None);
    assert!(h.vh_errb() >= 1e-13);
    assert!(h.vh_errb().is_finite());
}

