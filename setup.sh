#!/bin/bash
# Offline setup after a fresh restore: build the native replay crate once (warms the cargo target dirs).
cd "$(dirname "$0")"
export CARGO_NET_OFFLINE=true
mkdir -p .cache evidence replays
cp -f /repo/Cargo.lock replay/Cargo.lock 2>/dev/null
(cd replay && cargo build --offline --target-dir ../.cache/target-replay) >/dev/null 2>&1 || echo "setup: replay build failed (checks will retry)"
exit 0
