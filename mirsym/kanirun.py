"""Engine K driver: runs Kani proof harnesses of /verif/kani against /repo's current tree, parses the
per-harness verdicts, and replays counterexamples natively (concrete playback) before any VIOLATION
is reported.  A timeout, an out-of-memory kill or `Status: ERROR` is inconclusive, never a pass."""
import os
import re
import shutil
import subprocess
import time

from . import engine
from .engine import Inconclusive, log

KANI_DIR = os.path.join(engine.VERIF, 'kani')


def _sync_lock():
    src = os.path.join(engine.REPO, 'Cargo.lock')
    if os.path.exists(src):
        shutil.copy(src, os.path.join(KANI_DIR, 'Cargo.lock'))


def module_of(name):
    """module (file stem) of /verif/kani/src that defines harness `name`"""
    for f in sorted(os.listdir(os.path.join(KANI_DIR, 'src'))):
        if f.endswith('.rs') and f != 'lib.rs':
            if re.search(r'(?:fn %s\s*\(|seg_harness!\(%s,)' % (re.escape(name), re.escape(name)), open(os.path.join(KANI_DIR, 'src', f)).read()):
                return f[:-3]
    raise Inconclusive('kani harness %s not found in /verif/kani/src' % name)


def parse_results(text):
    """-> {harness: {'verdict':..., 'time':..., 'failed_checks': [...], 'covers': {...}}}"""
    res = {}
    # with -j the output of every harness is printed as one block after "Checking harness X..." lines;
    # blocks start with "Thread N: Checking harness" (parallel) or "Checking harness" (sequential).
    blocks = re.split(r'(?:Thread \d+: )?Checking harness ([\w:]+)\.\.\.', text)
    # blocks = [pre, name1, body1, name2, body2...] in sequential mode; in parallel mode bodies are interleaved:
    # results are then printed as "Thread N:" prefixed?  handle both by also scanning for summary lines.
    for i in range(1, len(blocks), 2):
        name = blocks[i].split('::')[-1]
        body = blocks[i + 1]
        res.setdefault(name, {'body': ''})
        res[name]['body'] += body
    return res


def _key():
    import hashlib
    h = hashlib.sha256(engine.src_hash().encode())
    for f in sorted(os.listdir(os.path.join(KANI_DIR, 'src'))):
        h.update(open(os.path.join(KANI_DIR, 'src', f), 'rb').read())
    h.update(open(os.path.join(KANI_DIR, 'Cargo.toml'), 'rb').read())
    return h.hexdigest()[:16]


def run(run, pid, harnesses, jobs=8, total_timeout=900, extra_args=(), mem_gb=24):
    """harnesses: list of dicts {name, role: 'proof'|'witness', note, bounds}.
    Records into run.kani; returns dict name -> verdict."""
    _sync_lock()
    tgt = os.path.join(engine.CACHE, 'target-kani-%s' % pid)
    names = [h['name'] for h in harnesses]
    verdicts = {}
    t0 = time.time()
    # one cargo-kani process per harness (own log); parallelism by a small process pool; the first one builds.
    logs = {}
    build = subprocess.run(['cargo', 'kani', '--target-dir', tgt, '--only-codegen'], cwd=KANI_DIR, env=engine.ENV,
                           capture_output=True, text=True)
    if build.returncode != 0:
        raise Inconclusive('kani harness crate does not build against the current tree:\n' + (build.stdout + build.stderr)[-3000:])
    # memoisation: a harness already decided for exactly this source tree + harness crate (e.g. by the check of another property that
    # shares it) is not run again; the stored log is re-classified and marked as reused in the evidence
    key = _key()
    memo_dir = os.path.join(engine.CACHE, 'kani-memo')
    os.makedirs(memo_dir, exist_ok=True)
    pending = []
    for h in harnesses:
        mp = os.path.join(memo_dir, '%s-%s.log' % (key, h['name']))
        if os.path.exists(mp) and os.environ.get('VERIF_KANI_NOMEMO') != '1':
            txt = open(mp).read()
            m0 = re.search(r'^#wall=([\d.]+) rc=(-?\d+)', txt)
            n_before = len(run.kani)
            verdicts[h['name']] = _classify(run, pid, h, txt, int(m0.group(2)), float(m0.group(1)))
            run.kani[-1]['reused_from_same_tree'] = True
        else:
            pending.append(h)
    running = []
    lim_kb = mem_gb * 1024 * 1024
    while pending or running:
        while pending and len(running) < jobs:
            h = pending.pop(0)
            lp = os.path.join(engine.CACHE, 'kani-%s-%s.log' % (pid, h['name']))
            cmd = 'ulimit -v %d; exec cargo kani --target-dir %s --harness %s::%s --exact %s' % (
                lim_kb, tgt, module_of(h['name']), h['name'], ' '.join(list(extra_args) + list(h.get('args', []))))
            f = open(lp, 'w')
            p = subprocess.Popen(['bash', '-c', cmd], cwd=KANI_DIR, env=engine.ENV, stdout=f, stderr=subprocess.STDOUT)
            running.append((h, p, f, lp, time.time()))
        time.sleep(0.5)
        still = []
        for (h, p, f, lp, ts) in running:
            rc = p.poll()
            to = h.get('timeout', total_timeout)
            if rc is None and time.time() - ts > to:
                p.kill()
                subprocess.run(['pkill', '-f', 'cbmc.*%s' % h['name']], capture_output=True)
                rc = -9
            if rc is None:
                still.append((h, p, f, lp, ts))
                continue
            f.close()
            txt = open(lp).read()
            dt = time.time() - ts
            verdicts[h['name']] = _classify(run, pid, h, txt, rc, dt)
            if verdicts[h['name']] in ('SUCCESSFUL', 'FAILED'):
                with open(os.path.join(memo_dir, '%s-%s.log' % (key, h['name'])), 'w') as mf:
                    mf.write('#wall=%.1f rc=%d\n' % (dt, rc))
                    mf.write(txt)
        running = still
    return verdicts


def _classify(run, pid, h, txt, rc, dt):
    name = h['name']
    role = h.get('role', 'proof')
    m = re.search(r'VERIFICATION:- (\w+)', txt)
    v = m.group(1) if m else ('TIMEOUT' if rc == -9 else 'ERROR')
    if 'Status: ERROR' in txt or 'out of memory' in txt.lower() or 'std::bad_alloc' in txt or re.search(r'CBMC failed with status|CBMC crashed|Killed', txt):
        v = 'ERROR'
    if rc == -9:
        v = 'TIMEOUT'       # killed by this driver: whatever the tool printed while dying is not a verdict
    if 'unwinding assertion' in txt and re.search(r'unwinding assertion[^\n]*\n[^\n]*\n?', txt) and re.search(r'Failed Checks: unwinding assertion', txt):
        v = 'UNWIND'
    failed = re.findall(r'Failed Checks: ([^\n]*)', txt)
    covers = re.findall(r'Check \d+: [^\n]*\.cover\.\d+\s*\n\s*- Status: (SATISFIED|UNSATISFIABLE|UNREACHABLE)\s*\n\s*- Description: "([^"]*)"', txt)
    tm = re.search(r'Verification Time: ([\d.]+)s', txt)
    rec = {'harness': name, 'role': role, 'verdict': v, 'wall_s': round(dt, 1), 'cbmc_s': float(tm.group(1)) if tm else None,
           'failed_checks': failed[:6], 'covers': [{'status': s, 'what': d} for s, d in covers][:8],
           'bounds': h.get('bounds', ''), 'stubs': h.get('stubs', []), 'note': h.get('note', '')}
    run.kani.append(rec)
    run.solver_time += dt
    if role == 'proof':
        if v == 'SUCCESSFUL':
            # every cover point of a proof harness must be reachable (vacuity guard)
            bad = [d for s, d in covers if s != 'SATISFIED']
            if bad:
                run.inconclusive.append('kani %s: cover point not satisfied (vacuous harness?): %r' % (name, bad))
        elif v == 'FAILED':
            _handle_failure(run, pid, h, txt, failed)
        else:
            run.inconclusive.append('kani %s: %s after %.0fs (no verdict; never counted as success)' % (name, v, dt))
    elif role == 'witness':
        # reachability twin: its cover! must be SATISFIED
        ok = any(s == 'SATISFIED' for s, d in covers)
        rec['witness_ok'] = ok
        if not ok:
            run.inconclusive.append('kani %s: vacuity witness not satisfied (%s)' % (name, v))
    return v


def _handle_failure(run, pid, h, txt, failed):
    """Counterexample: obtain concrete values (concrete playback), run them natively, report only what reproduces."""
    name = h['name']
    tgt = os.path.join(engine.CACHE, 'target-kani-%s' % pid)
    cmd = ['cargo', 'kani', '--target-dir', tgt, '--harness', '%s::%s' % (module_of(name), name), '--exact', '-Z', 'concrete-playback', '--concrete-playback=print'] + list(h.get('args', []))
    try:
        p = subprocess.run(cmd, cwd=KANI_DIR, env=engine.ENV, capture_output=True, text=True, timeout=h.get('timeout', 900) + 120)
        out = p.stdout + p.stderr
    except subprocess.TimeoutExpired:
        out = ''
    m = re.search(r'```\s*\n(.*?)```', out, re.S)
    test_src = m.group(1) if m else None
    what = 'kani harness %s FAILED: %s' % (name, '; '.join(failed[:3]))
    if not test_src:
        run.suspect.append(what + ' (no concrete playback could be generated)')
        return
    # native replay in a scratch copy of the harness crate
    scratch = os.path.join(engine.CACHE, 'kani-playback-%s' % pid)
    if os.path.exists(scratch):
        shutil.rmtree(scratch)
    shutil.copytree(KANI_DIR, scratch, ignore=shutil.ignore_patterns('target'))
    mod = module_of(name) + '.rs'
    path = os.path.join(scratch, 'src', mod)
    with open(path, 'a') as fh:
        fh.write('\n' + test_src + '\n')
    tname = re.search(r'fn (kani_concrete_playback_\w+)', test_src).group(1)
    reproduced = None
    for prof in ([], ['--release']):
        try:
            p = subprocess.run(['cargo', 'kani', 'playback', '-Z', 'concrete-playback'] + prof + ['--', tname], cwd=scratch,
                               env=engine.ENV, capture_output=True, text=True, timeout=900)
        except subprocess.TimeoutExpired:
            continue
        o = p.stdout + p.stderr
        if re.search(r'test result: FAILED|panicked at', o):
            reproduced = ('release' if prof else 'debug', (re.findall(r'panicked at [^\n]*\n[^\n]*', o) or [''])[0][:300])
            break
    os.makedirs(os.path.join(engine.VERIF, 'replays'), exist_ok=True)
    rp = engine.save_replay(pid, {'kind': 'kani_playback', 'harness': name, 'module': mod, 'test': test_src, 'failed_checks': failed[:6]})
    shutil.rmtree(scratch, ignore_errors=True)
    if reproduced:
        run.violation('%s; concrete playback reproduces natively (%s build): %s' % (what, reproduced[0], reproduced[1]), rp)
    else:
        run.suspect.append(what + ' (concrete playback did not fail natively; replay %s)' % rp)


def replay(pid, path):
    import json
    d = json.load(open(path))
    scratch = os.path.join(engine.CACHE, 'kani-playback-%s' % pid)
    if os.path.exists(scratch):
        shutil.rmtree(scratch)
    _sync_lock()
    shutil.copytree(KANI_DIR, scratch, ignore=shutil.ignore_patterns('target'))
    with open(os.path.join(scratch, 'src', d['module']), 'a') as fh:
        fh.write('\n' + d['test'] + '\n')
    tname = re.search(r'fn (kani_concrete_playback_\w+)', d['test']).group(1)
    p = subprocess.run(['cargo', 'kani', 'playback', '-Z', 'concrete-playback', '--', tname], cwd=scratch, env=engine.ENV,
                       capture_output=True, text=True)
    o = p.stdout + p.stderr
    print(o[-1500:])
    shutil.rmtree(scratch, ignore_errors=True)
    return 1 if re.search(r'test result: FAILED|panicked at', o) else 0
