"""Clearing denominators: rewrite a z3 formula over the reals so that no division remains.

Every arithmetic term t is brought to a fraction (n, d) of division-free terms; an atom
`t1 op t2` becomes the polynomial atom obtained by multiplying with d1^2 d2^2 > 0 (for
order atoms) or d1 d2 (for equalities).  Sound under the assumption that every divisor
is non-zero - those are exactly the recorded side conditions of the division models,
which the obligations discharge separately from the documented preconditions.

Polynomial identities in this form are decided by z3 in milliseconds where the same
identity written with native division runs into the timeout (DESIGN.md section 2).
"""
import z3

_cache = {}


def frac(t):
    """t: arithmetic z3 term -> (num, den) division-free"""
    key = t.get_id()
    hit = _cache.get(key)
    if hit is not None and z3.eq(hit[0], t):
        return hit[1]
    r = _frac(t)
    _cache[key] = (t, r)      # keeps t alive: z3 reuses ast ids of freed terms
    return r


ONE = None


def one():
    return z3.RealVal(1)


def is_one(d):
    return z3.is_rational_value(d) and d.numerator_as_long() == 1 and d.denominator_as_long() == 1


def mul(a, b):
    if is_one(a):
        return b
    if is_one(b):
        return a
    return a * b


def _frac(t):
    if z3.is_rational_value(t) or z3.is_int_value(t) or z3.is_algebraic_value(t):
        return (t, one())
    if z3.is_const(t):
        return (t, one())
    k = t.decl().kind()
    ch = t.children()
    if k == z3.Z3_OP_TO_REAL:
        return (t, one())
    if k == z3.Z3_OP_UMINUS:
        n, d = frac(ch[0])
        return (-n, d)
    if k == z3.Z3_OP_ADD or k == z3.Z3_OP_SUB:
        n, d = frac(ch[0])
        for c in ch[1:]:
            n2, d2 = frac(c)
            if z3.eq(d, d2):
                n = n + n2 if k == z3.Z3_OP_ADD else n - n2
            else:
                n = mul(n, d2) + mul(n2, d) if k == z3.Z3_OP_ADD else mul(n, d2) - mul(n2, d)
                d = mul(d, d2)
        return (n, d)
    if k == z3.Z3_OP_MUL:
        n, d = frac(ch[0])
        for c in ch[1:]:
            n2, d2 = frac(c)
            n = mul(n, n2)
            d = mul(d, d2)
        return (n, d)
    if k == z3.Z3_OP_DIV:
        n1, d1 = frac(ch[0])
        n2, d2 = frac(ch[1])
        return (mul(n1, d2), mul(d1, n2))
    if k == z3.Z3_OP_ITE:
        c = clear(ch[0])
        n1, d1 = frac(ch[1])
        n2, d2 = frac(ch[2])
        if z3.eq(d1, d2):
            return (z3.If(c, n1, n2), d1)
        return (z3.If(c, mul(n1, d2), mul(n2, d1)), mul(d1, d2))
    if k == z3.Z3_OP_POWER:
        if z3.is_int_value(ch[1]) or z3.is_rational_value(ch[1]):
            e = ch[1].as_long() if z3.is_int_value(ch[1]) else None
            if e is not None and e >= 0:
                n, d = frac(ch[0])
                rn, rd = one(), one()
                for _ in range(e):
                    rn = mul(rn, n); rd = mul(rd, d)
                return (rn, rd)
    # uninterpreted function application or anything else: atom
    return (t, one())


def clear(f):
    """f: boolean z3 formula -> equivalent (given non-zero divisors) division-free formula"""
    if z3.is_true(f) or z3.is_false(f):
        return f
    k = f.decl().kind()
    ch = f.children()
    if k in (z3.Z3_OP_AND, z3.Z3_OP_OR, z3.Z3_OP_NOT, z3.Z3_OP_IMPLIES, z3.Z3_OP_XOR, z3.Z3_OP_IFF):
        cs = [clear(c) for c in ch]
        if k == z3.Z3_OP_AND: return z3.And(cs)
        if k == z3.Z3_OP_OR: return z3.Or(cs)
        if k == z3.Z3_OP_NOT: return z3.Not(cs[0])
        if k == z3.Z3_OP_IMPLIES: return z3.Implies(cs[0], cs[1])
        if k == z3.Z3_OP_XOR: return z3.Xor(cs[0], cs[1])
        return cs[0] == cs[1]
    if k == z3.Z3_OP_ITE and z3.is_bool(f):
        return z3.If(clear(ch[0]), clear(ch[1]), clear(ch[2]))
    if k in (z3.Z3_OP_EQ, z3.Z3_OP_DISTINCT) and len(ch) == 2 and z3.is_arith(ch[0]):
        if ch[0].sort() == z3.IntSort():
            return f
        n1, d1 = frac(ch[0])
        n2, d2 = frac(ch[1])
        if z3.eq(d1, d2):
            e = n1 == n2
        else:
            e = mul(n1, d2) == mul(n2, d1)
        return e if k == z3.Z3_OP_EQ else z3.Not(e)
    if k == z3.Z3_OP_EQ and len(ch) == 2 and z3.is_bool(ch[0]):
        return clear(ch[0]) == clear(ch[1])
    if k in (z3.Z3_OP_LE, z3.Z3_OP_LT, z3.Z3_OP_GE, z3.Z3_OP_GT):
        if ch[0].sort() == z3.IntSort():
            return f
        n1, d1 = frac(ch[0])
        n2, d2 = frac(ch[1])
        if is_one(d1) and is_one(d2):
            l, r = n1, n2
        else:
            # multiply by d1^2 d2^2 > 0
            l = mul(mul(n1, d1), mul(d2, d2))
            r = mul(mul(n2, d2), mul(d1, d1))
        return {z3.Z3_OP_LE: l <= r, z3.Z3_OP_LT: l < r, z3.Z3_OP_GE: l >= r, z3.Z3_OP_GT: l > r}[k]
    return f


def has_div(f):
    seen = set()
    stack = [f]
    while stack:
        t = stack.pop()
        if t.get_id() in seen:
            continue
        seen.add(t.get_id())
        if z3.is_app(t) and t.decl().kind() == z3.Z3_OP_DIV:
            # division by a numeral is harmless
            if not (z3.is_rational_value(t.children()[1]) or z3.is_int_value(t.children()[1])):
                return True
        stack.extend(t.children())
    return False
