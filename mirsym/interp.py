"""Symbolic interpreter for unoptimised MIR (Engine M).

Values
  * scalars: python int (integers), Fraction (f64 read as an exact real), bool,
    or z3 ArithRef / BoolRef when symbolic
  * Agg(tag, items)     struct / tuple / array / Vec / closure captures
  * Var(name, items)    enum value with a *concrete* variant (Option, Result,
                        Ordering, crate enums); symbolic variants are handled by
                        forking at the place where they are produced
  * Ref(base, path)     reference / raw pointer / Box: base = ('L', frame, local)
                        or ('H', id); optional slice window
  * SymArr(fn, len)     read-only symbolic slice (uninterpreted function)
  * Opaque(desc)        values the encoding never looks into (fmt::Arguments, ..)

Machine integers are mathematical integers; every overflow / bounds `assert`
terminator of the MIR is *recorded* (state.asserts) so that obligations can
discharge it instead of assuming it.  f64 is read as an exact real (stated
abstraction, see DESIGN.md 3.1).

Anything unknown raises Unsupported -> the run is inconclusive, never a pass.
"""
import itertools
import re
from fractions import Fraction

import z3

from . import mir as M


class Unsupported(Exception):
    pass


class Agg:
    __slots__ = ('tag', 'items')

    def __init__(self, tag, items):
        self.tag = tag
        self.items = tuple(items)

    def __repr__(self):
        return '%s%r' % (self.tag, self.items)


class Var:
    __slots__ = ('name', 'items', 'ty')

    def __init__(self, name, items=(), ty=''):
        self.name = name
        self.items = tuple(items)
        self.ty = ty

    def __repr__(self):
        return '%s%r' % (self.name, self.items)


class Ref:
    __slots__ = ('base', 'path', 'win')

    def __init__(self, base, path=(), win=None):
        self.base = base
        self.path = tuple(path)
        self.win = win      # (start, len) for sub-slices

    def __repr__(self):
        return 'Ref(%r,%r%s)' % (self.base, self.path, '' if self.win is None else ',%r' % (self.win,))


class SymArr:
    """read-only symbolic array: fn is a z3 function Int -> sort, length a z3/py int"""
    __slots__ = ('fn', 'length')

    def __init__(self, fn, length):
        self.fn = fn
        self.length = length


class Opaque:
    __slots__ = ('desc',)

    def __init__(self, desc):
        self.desc = desc

    def __repr__(self):
        return 'Opaque(%s)' % self.desc


UNIT = Agg('()', ())
INF = z3.Real('INF!f64')

DISCR = {'None': 0, 'Some': 1, 'Ok': 0, 'Err': 1, 'Less': 255, 'Equal': 0, 'Greater': 1,
         'Break': 1, 'Continue': 0,
         'Minus': 0, 'NoSign': 1, 'Plus': 2,            # num_bigint::Sign (declaration order)
         'OneD': 1, 'TwoD': 2, 'ThreeD': 3}             # Dimensionality (explicit repr(usize) values)


_enum_cache = {}


def source_enum_discriminants(src_root):
    """variant name -> discriminant for every fieldless-or-not `enum` declared in the crate (declaration order, explicit `= n` honoured);
    read from the current source so that a reordered enum is tracked.  Variant names that occur in two enums with different
    discriminants are dropped (ambiguous -> Unsupported when used)."""
    import os
    if src_root in _enum_cache:
        return _enum_cache[src_root]
    out, clash = {}, set()
    for root, _d, files in os.walk(os.path.join(src_root, 'src')):
        for f in files:
            if not f.endswith('.rs'):
                continue
            txt = re.sub(r'//[^\n]*', '', open(os.path.join(root, f)).read())
            for m in re.finditer(r'\benum\s+(\w+)\s*(?:<[^>{]*>)?\s*\{', txt):
                depth, j = 1, m.end()
                while j < len(txt) and depth:
                    depth += {'{': 1, '}': -1}.get(txt[j], 0)
                    j += 1
                body = txt[m.end():j - 1]
                # split at top level commas
                parts, cur, d2 = [], '', 0
                for ch in body:
                    if ch in '({[<':
                        d2 += 1
                    elif ch in ')}]>':
                        d2 -= 1
                    if ch == ',' and d2 == 0:
                        parts.append(cur); cur = ''
                    else:
                        cur += ch
                parts.append(cur)
                nxt = 0
                for p_ in parts:
                    p_ = re.sub(r'#\[[^\]]*\]', '', p_).strip()
                    mm = re.match(r'(\w+)', p_)
                    if not mm:
                        continue
                    ev = re.search(r'=\s*(\d+)\s*$', p_)
                    if ev:
                        nxt = int(ev.group(1))
                    nm = mm.group(1)
                    if nm in out and out[nm] != nxt:
                        clash.add(nm)
                    out[nm] = nxt
                    nxt += 1
    for nm in clash:
        out.pop(nm, None)
    _enum_cache[src_root] = out
    return out


# ----------------------------------------------------------------------------
# scalar helpers (concrete when possible)

def is_z3(x):
    return isinstance(x, z3.ExprRef)


def is_scalar(x):
    return isinstance(x, (int, Fraction, bool)) or is_z3(x)


def to_z3(x):
    if is_z3(x):
        return x
    if isinstance(x, bool):
        return z3.BoolVal(x)
    if isinstance(x, int):
        return z3.IntVal(x)
    if isinstance(x, Fraction):
        return z3.RealVal(str(x))
    raise Unsupported('to_z3 %r' % (x,))


def is_real(x):
    if isinstance(x, Fraction):
        return True
    return is_z3(x) and x.sort() == z3.RealSort()


def arith(op, a, b):
    if not is_z3(a) and not is_z3(b):
        if op == '+': return a + b
        if op == '-': return a - b
        if op == '*': return a * b
        if op == '/':
            if isinstance(a, Fraction) or isinstance(b, Fraction):
                return Fraction(a) / Fraction(b)
            # integer division truncates toward zero
            q = abs(a) // abs(b)
            return q if (a >= 0) == (b >= 0) else -q
        if op == '%':
            r = abs(a) % abs(b)
            return r if a >= 0 else -r
    # cheap algebraic simplifications keep the terms small
    if op == '+':
        if not is_z3(a) and a == 0: return b
        if not is_z3(b) and b == 0: return a
    if op == '-':
        if not is_z3(b) and b == 0: return a
    if op == '*':
        if not is_z3(a) and a == 0: return a
        if not is_z3(b) and b == 0: return b
        if not is_z3(a) and a == 1: return b
        if not is_z3(b) and b == 1: return a
    A, B = to_z3(a), to_z3(b)
    if A.sort() != B.sort():
        if A.sort() == z3.IntSort(): A = z3.ToReal(A)
        if B.sort() == z3.IntSort(): B = z3.ToReal(B)
    if op == '+': return A + B
    if op == '-': return A - B
    if op == '*': return A * B
    if op == '/': return A / B
    if op == '%': return A % B
    raise Unsupported(op)


def cmp_(op, a, b):
    if not is_z3(a) and not is_z3(b):
        return {'<': a < b, '<=': a <= b, '>': a > b, '>=': a >= b, '==': a == b, '!=': a != b}[op]
    A, B = to_z3(a), to_z3(b)
    if A.sort() != B.sort():
        if A.sort() == z3.IntSort(): A = z3.ToReal(A)
        if B.sort() == z3.IntSort(): B = z3.ToReal(B)
    return {'<': A < B, '<=': A <= B, '>': A > B, '>=': A >= B, '==': A == B, '!=': A != B}[op]


def neg(a):
    return -a


def b_not(a):
    if isinstance(a, bool):
        return not a
    return z3.Not(a)


def b_and(a, b):
    if isinstance(a, bool):
        return b if a else False
    if isinstance(b, bool):
        return a if b else False
    return z3.And(a, b)


def b_or(a, b):
    if isinstance(a, bool):
        return True if a else b
    if isinstance(b, bool):
        return True if b else a
    return z3.Or(a, b)


def ite(c, a, b):
    if isinstance(c, bool):
        return a if c else b
    return merge(c, a, b)


def merge(c, a, b):
    """structural if-then-else"""
    if a is b:
        return a
    if is_scalar(a) and is_scalar(b):
        if not is_z3(a) and not is_z3(b) and a == b and type(a) == type(b):
            return a
        A, B = to_z3(a), to_z3(b)
        if A.sort() != B.sort():
            if A.sort() == z3.IntSort(): A = z3.ToReal(A)
            if B.sort() == z3.IntSort(): B = z3.ToReal(B)
        return z3.If(c, A, B)
    if isinstance(a, Agg) and isinstance(b, Agg) and len(a.items) == len(b.items):
        return Agg(a.tag, [merge(c, x, y) for x, y in zip(a.items, b.items)])
    if isinstance(a, Var) and isinstance(b, Var) and a.name == b.name:
        return Var(a.name, [merge(c, x, y) for x, y in zip(a.items, b.items)], a.ty)
    if isinstance(a, Ref) and isinstance(b, Ref) and a.base == b.base and a.path == b.path and a.win == b.win:
        return a
    raise Unsupported('cannot merge %r / %r' % (a, b))


# ----------------------------------------------------------------------------

class State:
    def __init__(self):
        self.mem = {}          # frame id -> {local: value}
        self.heap = {}         # heap id -> value
        self.pc = []           # list of z3 Bool
        self.asserts = []      # (pc tuple, cond, msg, where)   recorded MIR asserts
        self.defs = []         # definitional constraints (sqrt, ...)
        self.side = []         # (pc tuple, cond, msg) side conditions of models (x>=0 for sqrt, b!=0 for div)
        self.events = []       # recorder output of overrides
        self.sqrts = []        # (s, X): s is the fresh variable standing for sqrt(X)
        self.visits = 0

    def fork(self):
        s = State.__new__(State)
        s.mem = {k: dict(v) for k, v in self.mem.items()}
        s.heap = dict(self.heap)
        s.pc = list(self.pc)
        s.asserts = list(self.asserts)
        s.defs = list(self.defs)
        s.side = list(self.side)
        s.events = list(self.events)
        s.sqrts = list(self.sqrts)
        s.visits = self.visits
        return s


class Outcome:
    def __init__(self, state, value=None, panic=None):
        self.state = state
        self.value = value
        self.panic = panic

    @property
    def pc(self):
        return self.state.pc


_frame_ids = itertools.count(1)
_heap_ids = itertools.count(1000000)    # harness-chosen heap ids are small
_fresh = itertools.count(1)


def fresh_real(prefix='t'):
    return z3.Real('%s!%d' % (prefix, next(_fresh)))


def fresh_int(prefix='i'):
    return z3.Int('%s!%d' % (prefix, next(_fresh)))


def fresh_bool(prefix='b'):
    return z3.Bool('%s!%d' % (prefix, next(_fresh)))


class Interp:
    def __init__(self, funcs, src_root, models, overrides=None, generics=None,
                 max_visits=4000, max_paths=20000, prune=True, enum_discr=None):
        self.funcs = funcs
        self.src_root = src_root
        self.models = models              # list of (regex, fn)
        self.overrides = overrides or {}  # normalized callee -> fn(interp,state,args,callee)
        self.max_visits = max_visits
        self.max_paths = max_paths
        self.prune = prune
        self.panics = []                  # (pc tuple, message, state)
        self.generics = generics or {}
        self.discr = dict(DISCR)
        for k_, v_ in source_enum_discriminants(src_root).items():
            self.discr.setdefault(k_, v_)
        if enum_discr:
            self.discr.update(enum_discr)
        self.frame_fn = {}
        self.stats = {'calls': 0, 'stmts': 0, 'forks': 0, 'model_calls': 0, 'functions': set()}
        self.solver = z3.Solver()
        self.solver.set('timeout', 2000)
        self._build_index()

    # ------------------------------------------------------------------ index
    def _impl_info(self, path, line, col):
        """Parse the impl header (or derive) in the source at path:line:col.
        returns (self_type, trait or None)"""
        try:
            lines = open('%s/%s' % (self.src_root, path)).read().split('\n')
        except OSError:
            return (None, None)
        l = lines[line - 1]
        seg = l[col - 1:]
        in_derive = l.lstrip().startswith('#[derive') or 'derive(' in l[:col]
        if not in_derive and not seg.lstrip().startswith('impl'):
            # multi-line #[derive( ... )] attribute
            for back in range(1, 4):
                if line - 1 - back >= 0 and '#[derive(' in lines[line - 1 - back]:
                    in_derive = True
                    break
        if in_derive:
            m = re.match(r'(\w+)', seg)
            trait = m.group(1) if m else None
            # the item the derive applies to
            for k in range(line - 1, min(line + 12, len(lines))):
                mm = re.search(r'^\s*(?:pub(?:\([^)]*\))?\s+)?(?:struct|enum)\s+(\w+)', lines[k])
                if mm:
                    return (mm.group(1), trait)
            return (None, trait)
        # gather header up to '{'
        hdr = seg
        k = line
        while '{' not in hdr and k < len(lines):
            hdr += ' ' + lines[k].strip(); k += 1
        hdr = hdr.split('{')[0]
        h2 = hdr.strip()
        if not h2.startswith('impl'):
            return (None, None)
        h2 = h2[4:].lstrip()
        if h2.startswith('<'):
            depth = 0
            for k, ch in enumerate(h2):
                if ch == '<':
                    depth += 1
                elif ch == '>' and h2[k - 1] not in '-=':
                    depth -= 1
                    if depth == 0:
                        h2 = h2[k + 1:]
                        break
        body = h2.strip()
        # strip where clause
        body = re.split(r'\bwhere\b', body)[0].strip()
        if ' for ' in body:
            trait, ty = body.split(' for ', 1)
            trait = strip_generics(trait.strip())
            self.impl_params[(path, line, col)] = type_args(ty.strip())
            return (strip_generics(ty.strip()), trait.split('::')[-1])
        self.impl_params[(path, line, col)] = type_args(body.strip())
        return (strip_generics(body.strip()), None)

    def _build_index(self):
        self.impl_params = {}
        self.fn_impl = {}         # fn name -> (path, line, col) of its impl block
        self.by_key = {}          # (type, method) -> [fn name]
        self.by_free = {}         # free fn name -> fn name
        self.closures = {}        # '{closure@...}' -> fn name
        for name, f in self.funcs.items():
            # closures
            if re.search(r'\{closure#\d+\}$', name) and f.params:
                ty = f.params[0][1]
                m = re.search(r'\{closure@[^}]*\}', ty)
                if m:
                    self.closures[m.group(0)] = name
                continue
            m = re.match(r'^(?:(.*?)::)?<impl at (\S+?):(\d+):(\d+): \d+:\d+>::(.+)$', name)
            if m:
                mod, path, line, col, rest = m.groups()
                if '::' in rest:
                    # nested items inside methods (e.g. fn clamp inside wrapping_distance_2; inner impls)
                    parts = rest.split('::')
                    if '<impl at' in rest:
                        mm = re.match(r'^(.*)::<impl at (\S+?):(\d+):(\d+): \d+:\d+>::(\w+)$', rest)
                        if mm:
                            sty, tr = self._impl_info(mm.group(2), int(mm.group(3)), int(mm.group(4)))
                            self.by_key.setdefault((sty, mm.group(5)), []).append((name, tr, mod))
                        continue
                    self.by_free.setdefault(parts[-1], []).append(name)
                    continue
                sty, tr = self._impl_info(path, int(line), int(col))
                self.fn_impl[name] = (path, int(line), int(col))
                self.by_key.setdefault((sty, rest), []).append((name, tr, mod))
                continue
            if re.match(r'^[\w:]+$', name):
                parts = name.split('::')
                if len(parts) >= 2 and parts[-2][:1].isupper():
                    # trait default method e.g. GetMutMultiple::get_3_mut, or enum ctor shim
                    self.by_key.setdefault((parts[-2], parts[-1]), []).append((name, None, None))
                else:
                    self.by_free.setdefault(parts[-1], []).append(name)

    def resolve(self, callee, generics):
        """callee text -> crate-local function name or None"""
        c = callee.strip()
        m = re.match(r'^<(.+) as (.+?)>::(\w+)(?:::<.*>)?$', c)
        if m:
            ty = m.group(1).strip()
            ty = strip_generics(ty.lstrip('&').replace('mut ', '').strip())
            ty = generics.get(ty, ty)
            tr = strip_generics(m.group(2)).split('::')[-1]
            meth = m.group(3)
            tyl = ty.split('::')[-1]
            cands = self.by_key.get((tyl, meth), [])
            for name, trait, mod in cands:
                if trait == tr:
                    return name, {}
            # blanket impl: self type is a generic parameter
            for (sty, mname), lst in self.by_key.items():
                if mname == meth and sty is not None and re.fullmatch(r'[A-Z]\w?', sty or ''):
                    for name, trait, mod in lst:
                        if trait == tr:
                            return name, {sty: ty}
            return None, None
        c2 = strip_turbofish(c)
        parts = c2.split('::')
        if len(parts) == 1:
            lst = self.by_free.get(parts[0])
            if lst and len(lst) == 1:
                return lst[0], {}
            if lst:
                exact = [x for x in lst if x == parts[0]]
                if exact:
                    return exact[0], {}
            return None, None
        ty, meth = parts[-2], parts[-1]
        ty = generics.get(ty, ty)
        cands = self.by_key.get((ty, meth), [])
        inherent = [x for x in cands if x[1] is None] or cands
        if len(parts) > 2:
            quals = parts[:-2]
            filt = [x for x in inherent if x[2] and x[2].split('::')[-1] in quals]
            if filt:
                inherent = filt
        if len(inherent) == 1:
            return inherent[0][0], self._bind_type_args(c, inherent[0][0], generics)
        if len(inherent) > 1:
            # prefer the non-"alternative" module unless qualified
            pref = [x for x in inherent if x[2] and 'alternative' not in x[2]]
            if len(pref) == 1:
                return pref[0][0], {}
            raise Unsupported('ambiguous callee %s -> %r' % (callee, inherent))
        lst = self.by_free.get(meth)
        if lst and len(parts) >= 2 and not parts[-2][:1].isupper():
            if len(lst) == 1:
                return lst[0], {}
        return None, None

    def _bind_type_args(self, callee, fname, generics):
        """`Type::<A, B>::method` -> bind the impl's type parameters positionally"""
        m = re.match(r'^(?:[\w:]*?::)?(\w+)::<(.*)>::(\w+)(?:::<.*>)?$', callee.strip())
        if not m:
            return {}
        key = self.fn_impl.get(fname)
        params = self.impl_params.get(key, []) if key else []
        args = M.split_top(m.group(2))
        # the turbofish may itself be nested: take only the segment right after the type name
        depth = 0
        txt = callee.strip()
        i0 = txt.find(m.group(1) + '::<') + len(m.group(1)) + 3
        j = i0
        depth = 1
        while j < len(txt) and depth:
            if txt[j] == '<': depth += 1
            elif txt[j] == '>' and txt[j - 1] not in '-=': depth -= 1
            j += 1
        args = M.split_top(txt[i0:j - 1])
        out = {}
        for p_, a_ in zip(params, args):
            a_ = a_.strip()
            out[p_] = generics.get(a_, strip_generics(a_).split('::')[-1])
        return out

    # ------------------------------------------------------------------ memory
    def read_base(self, st, base):
        if base[0] == 'L':
            try:
                return st.mem[base[1]][base[2]]
            except KeyError:
                raise Unsupported('read of uninitialised local _%d' % base[2])
        return st.heap[base[1]]

    def write_base(self, st, base, v):
        if base[0] == 'L':
            st.mem[base[1]][base[2]] = v
        else:
            st.heap[base[1]] = v

    def get_path(self, v, path):
        for p in path:
            v = self.get_item(v, p)
        return v

    def get_item(self, v, p):
        if isinstance(v, Ref):        # Box<T> auto-deref style paths are not produced; guard
            raise Unsupported('path through reference')
        if isinstance(v, SymArr):
            return v.fn(to_z3(p))
        if isinstance(v, (Agg, Var)):
            if is_z3(p):
                items = v.items
                if not items:
                    raise Unsupported('symbolic index into empty aggregate')
                res = items[-1]
                for k in range(len(items) - 2, -1, -1):
                    res = merge(p == k, items[k], res)
                return res
            try:
                return v.items[p]
            except IndexError:
                raise Unsupported('index %r out of range on %r' % (p, v.tag if isinstance(v, Agg) else v.name))
        raise Unsupported('projection %r on %r' % (p, v))

    def set_path(self, v, path, new):
        if not path:
            return new
        p = path[0]
        if isinstance(v, Agg):
            if is_z3(p):
                return Agg(v.tag, [merge(p == k, self.set_path(it, path[1:], new), it) for k, it in enumerate(v.items)])
            items = list(v.items)
            if p >= len(items):
                raise Unsupported('write index out of range')
            items[p] = self.set_path(items[p], path[1:], new)
            return Agg(v.tag, items)
        if isinstance(v, Var):
            items = list(v.items)
            items[p] = self.set_path(items[p], path[1:], new)
            return Var(v.name, items, v.ty)
        raise Unsupported('set_path on %r' % (v,))

    def deref_read(self, st, r):
        if not isinstance(r, Ref):
            raise Unsupported('deref of non-reference %r' % (r,))
        v = self.get_path(self.read_base(st, r.base), r.path)
        if r.win is not None:
            if isinstance(v, SymArr):
                raise Unsupported('window on SymArr')
            v = Agg(v.tag, v.items[r.win[0]:r.win[0] + r.win[1]])
        return v

    def deref_write(self, st, r, val):
        if r.win is not None:
            old = self.get_path(self.read_base(st, r.base), r.path)
            items = list(old.items)
            items[r.win[0]:r.win[0] + r.win[1]] = list(val.items)
            val = Agg(old.tag, items)
        root = self.read_base(st, r.base) if r.path else None
        self.write_base(st, r.base, self.set_path(root, r.path, val))

    # place -> (base, path, win)
    def eval_place(self, st, fid, place):
        k = place[0]
        if k == 'local':
            return Ref(('L', fid, place[1]))
        if k == 'deref':
            inner = self.eval_place(st, fid, place[1])
            v = self.deref_read(st, inner)
            if not isinstance(v, Ref):
                raise Unsupported('deref of non-ref value %r' % (v,))
            return v
        if k == 'field':
            r = self.eval_place(st, fid, place[1])
            if r.win is not None:
                raise Unsupported('field of slice window')
            return Ref(r.base, r.path + (place[2],))
        if k == 'downcast':
            r = self.eval_place(st, fid, place[1])
            v = self.deref_read(st, r)
            if not isinstance(v, Var):
                raise Unsupported('downcast of non-enum %r' % (v,))
            if v.name != place[2]:
                raise Unsupported('downcast to %s but value is %s' % (place[2], v.name))
            return r
        if k == 'index':
            r = self.eval_place(st, fid, place[1])
            idx = st.mem[fid][place[2]]
            off = r.win[0] if r.win is not None else 0
            if off:
                idx = arith('+', idx, off)
            return Ref(r.base, r.path + (idx,))
        if k == 'cindex':
            r = self.eval_place(st, fid, place[1])
            i, from_end = place[2], place[3]
            if from_end:
                v = self.deref_read(st, r)
                i = len(v.items) - i
            off = r.win[0] if r.win is not None else 0
            return Ref(r.base, r.path + (i + off,))
        raise Unsupported('place kind %s' % k)

    def read_place(self, st, fid, place):
        r = self.eval_place(st, fid, place)
        return self.deref_read(st, r)

    def write_place(self, st, fid, place, val):
        r = self.eval_place(st, fid, place)
        self.deref_write(st, r, val)

    # ------------------------------------------------------------------ operands
    def eval_const(self, txt, st):
        t = txt.strip()
        if t in ('true', 'false'):
            return t == 'true'
        m = re.fullmatch(r'(-?\d+)_(?:[ui](?:8|16|32|64|128|size))', t)
        if m:
            return int(m.group(1))
        m = re.fullmatch(r'(-?[\d.]+(?:[eE][-+]?\d+)?)f(?:32|64)', t)
        if m:
            return Fraction(m.group(1))
        if t.startswith('"') or t.startswith('b"'):
            return Opaque('str')
        if t == '()':
            return UNIT
        m = re.match(r'^.*: (?:usize|u\d+|i\d+|isize) = const (-?\d+)_\w+$', t)
        if m:
            return int(m.group(1))
        m = re.match(r'^.*: f64 = const (-?[\d.]+(?:[eE][-+]?\d+)?)f64$', t)
        if m:
            return Fraction(m.group(1))
        m = re.match(r'^ZeroSized: (.*)$', t)
        if m:
            ty = m.group(1).strip()
            cm = re.search(r'\{closure@[^}]*\}', ty)
            if cm:
                return Agg('closure:' + cm.group(0), ())
            return Agg('zst:' + ty, ())
        if t.startswith('PhantomData'):
            return Agg('zst:PhantomData', ())
        m = re.fullmatch(r'(?:glam::)?DVec3::(\w+)', t)
        if m:
            z, o = Fraction(0), Fraction(1)
            tab = {'ZERO': (z, z, z), 'ONE': (o, o, o), 'X': (o, z, z), 'Y': (z, o, z), 'Z': (z, z, o),
                   'NEG_X': (-o, z, z), 'NEG_Y': (z, -o, z), 'NEG_Z': (z, z, -o), 'NEG_ONE': (-o, -o, -o)}
            if m.group(1) in tab:
                return Agg('DVec3', tab[m.group(1)])
        m = re.fullmatch(r'(?:glam::)?DVec4::(\w+)', t)
        if m and m.group(1) in ('ONE', 'ZERO'):
            v = Fraction(1 if m.group(1) == 'ONE' else 0)
            return Agg('DVec4', (v, v, v, v))
        if t.endswith('HalfSpace::EPSILON'):
            return self.named_const('HalfSpace::EPSILON')
        m = re.fullmatch(r'(?:core|std)::f64::<impl f64>::(\w+)', t) or re.fullmatch(r'f64::(\w+)', t)
        if m:
            tab = {'EPSILON': Fraction(1, 2 ** 52), 'MIN_POSITIVE': Fraction(1, 2 ** 1022), 'MAX': Fraction((2 ** 53 - 1) * 2 ** 971)}
            if m.group(1) in tab:
                return tab[m.group(1)]
            if m.group(1) == 'INFINITY':
                return INF          # a symbolic bound: obligations assume INF > every finite quantity they mention
            if m.group(1) == 'NEG_INFINITY':
                return -INF
        m = re.fullmatch(r'(?:core|std)::f64::consts::(\w+)', t)
        if m and m.group(1) in ('SQRT_2', 'FRAC_1_SQRT_2'):
            # algebraic constants: a fresh positive real with its defining equation
            s_ = z3.Real('const!' + m.group(1))
            st.defs.append(z3.And(s_ > 0, (s_ * s_ == 2) if m.group(1) == 'SQRT_2' else (2 * s_ * s_ == 1)))
            return s_
        m = re.fullmatch(r'(?:core::num::<impl )?([iu](?:8|16|32|64|128|size))>?::(MIN|MAX)', t)
        if m:
            lo, hi = INT_RANGE[m.group(1)]
            return lo if m.group(2) == 'MIN' else hi
        m = re.fullmatch(r'(?:[\w:]*::)?Option::<.*>::None', t)
        if m:
            return Var('None', (), 'Option')
        if t in self.consts:
            return self.consts[t]
        # crate-level constants of the dump: `const NAME: TY = const VALUE;` (looked up by their last path segments)
        from . import mir as _mir
        key = t.split('::')[-1]
        hits = [(k_, v_) for k_, v_ in _mir.SIMPLE_CONSTS.items() if k_ == t or k_.split('::')[-1] == key and (t.endswith(k_) or k_.endswith(t) or '::' not in k_)]
        if len(hits) == 1:
            ty, val = hits[0][1]
            return self.eval_const(val if re.search(r'_[ui]\d|_[ui]size|f64$|^true$|^false$', val) else val, st)
        if len({v_ for _k, v_ in hits}) == 1 and hits:
            return self.eval_const(hits[0][1][1], st)
        # associated constant of an impl block (`Type::<..>::NAME`): the dump names it `<impl at file:line>::NAME`
        hits = [(k_, v_) for k_, v_ in _mir.SIMPLE_CONSTS.items() if k_.split('::')[-1] == key]
        if hits and len({v_ for _k, v_ in hits}) == 1:
            return self.eval_const(hits[0][1][1], st)
        # crate constant with a body (`const NAME: TY = { .. }`, parsed as the nullary function `const NAME`)
        bodies = [n for n in self.funcs if n.startswith('const ') and n.split('::')[-1] == key]
        if len(bodies) > 1 and len(t.split('::')) >= 2:
            owner = t.split('::')[-2]
            bodies = [n for n in bodies if self.funcs[n].ret_ty.split('::')[-1].split('<')[0] == owner] or bodies
        if len(bodies) == 1:
            outs = self.exec_fn(st, bodies[0], [], {})
            if len(outs) == 1:
                return outs[0][1]
        raise Unsupported('const %s' % t)

    consts = {}

    def named_const(self, name):
        # read `const EPSILON: f64 = 1e-13;` from the source of half_space.rs
        if name == 'HalfSpace::EPSILON':
            src = open('%s/src/voronoi/half_space.rs' % self.src_root).read()
            m = re.search(r'const EPSILON: f64 = ([\d.eE+-]+);', src)
            if not m:
                raise Unsupported('EPSILON not found')
            return Fraction(m.group(1))
        raise Unsupported('named const ' + name)

    def eval_operand(self, st, fid, op):
        k = op[0]
        if k in ('copy', 'move'):
            return self.read_place(st, fid, op[1])
        if k == 'const':
            pm = re.search(r'::promoted\[(\d+)\]$', op[1].strip())
            if pm:
                fname = self.frame_fn.get(fid)
                key = '%s::promoted[%s]' % (fname, pm.group(1))
                if key not in self.funcs:
                    raise Unsupported('promoted constant %s not found' % key)
                outs = self.exec_fn(st, key, [], {})
                if len(outs) != 1:
                    raise Unsupported('promoted constant with %d paths' % len(outs))
                return outs[0][1]
            return self.eval_const(op[1], st)
        raise Unsupported('operand %r' % (op,))

    # ------------------------------------------------------------------ rvalues
    def eval_rvalue(self, st, fid, rv, fn):
        k = rv[0]
        if k == 'use':
            return self.eval_operand(st, fid, rv[1])
        if k == 'ref':
            return self.eval_place(st, fid, rv[1])
        if k == 'binop':
            a = self.eval_operand(st, fid, rv[2])
            b = self.eval_operand(st, fid, rv[3])
            return self.binop(st, rv[1], a, b)
        if k == 'unop':
            a = self.eval_operand(st, fid, rv[2])
            if rv[1] == 'Not':
                if isinstance(a, bool) or (is_z3(a) and a.sort() == z3.BoolSort()):
                    return b_not(a)
                raise Unsupported('bitwise Not on integer')
            if rv[1] == 'Neg':
                return neg(a)
            if rv[1] == 'PtrMetadata':
                if isinstance(a, Ref):
                    if a.win is not None:
                        return a.win[1]
                    v = self.deref_read(st, a)
                    if isinstance(v, SymArr):
                        return v.length
                    if isinstance(v, Agg):
                        return len(v.items)
                raise Unsupported('PtrMetadata of %r' % (a,))
        if k == 'discriminant':
            v = self.read_place(st, fid, rv[1])
            if isinstance(v, Var):
                if v.name not in self.discr:
                    raise Unsupported('discriminant of unknown variant ' + v.name)
                return self.discr[v.name]
            raise Unsupported('discriminant of %r' % (v,))
        if k == 'len':
            v = self.read_place(st, fid, rv[1])
            return len(v.items)
        if k == 'cast':
            a = self.eval_operand(st, fid, rv[1])
            kind = rv[3]
            ty = rv[2]
            if kind == 'IntToFloat':
                if isinstance(a, int) and not isinstance(a, bool):
                    return Fraction(a)
                return z3.ToReal(a)
            if kind == 'IntToInt':
                # narrowing to fewer than 64 bits wraps (exact two's-complement semantics); 64-bit and wider targets are read as mathematical
                # integers (their range side conditions are the obligation's business)
                tm = re.fullmatch(r'([ui])(8|16|32)', ty.strip())
                if tm and not isinstance(a, bool):
                    bits = int(tm.group(2))
                    if isinstance(a, int):
                        w = a % (1 << bits)
                        return w if tm.group(1) == 'u' or w < (1 << (bits - 1)) else w - (1 << bits)
                    if is_z3(a) and a.sort() == z3.IntSort():
                        if tm.group(1) == 'u':
                            return a % (1 << bits)
                        return (a + (1 << (bits - 1))) % (1 << bits) - (1 << (bits - 1))
                return a
            if kind.startswith('PointerCoercion') or kind in ('PtrToPtr', 'Transmute', 'Subtype'):
                return a
            if kind == 'FloatToInt':
                if isinstance(a, Fraction):
                    import math
                    return int(a)   # truncation toward zero
                raise Unsupported('symbolic FloatToInt')
            raise Unsupported('cast kind ' + kind)
        if k == 'repeat':
            a = self.eval_operand(st, fid, rv[1])
            n = rv[2]
            m = re.match(r'^(?:const )?(\d+)_usize$', n) or re.match(r'^(\d+)$', n)
            if not m:
                raise Unsupported('repeat count ' + n)
            return Agg('array', [a] * int(m.group(1)))
        if k == 'aggregate':
            kind = rv[1]
            ops = [self.eval_operand(st, fid, o) for o in rv[3]]
            if kind == 'array':
                return Agg('array', ops)
            if kind == 'tuple':
                return Agg('tuple', ops) if ops else UNIT
            if kind == 'closure':
                m = re.search(r'\{closure@[^}]*\}', rv[2])
                return Agg('closure:' + m.group(0), ops)
            if kind == 'adt':
                path = strip_turbofish(rv[2])
                last = path.split('::')[-1]
                names = rv[4] if len(rv) > 4 else None
                if names is not None:
                    # struct literal (or struct-like enum variant)
                    return Agg(strip_generics(last), ops)
                # tuple-like: enum variant or tuple struct
                if last in self.discr or (len(path.split('::')) >= 2 and path.split('::')[-2] in self.enum_types):
                    return Var(last, ops, path)
                return Agg(strip_generics(last), ops)
        if k == 'raw':
            raise Unsupported('rvalue: ' + rv[1])
        raise Unsupported('rvalue kind %s' % k)

    enum_types = {'Option', 'Result', 'Ordering', 'Dimensionality', 'ControlFlow', 'Decomposition',
                  'Sign', 'AssertKind', 'RTreeNode'}

    def binop(self, st, op, a, b):
        tab = {'Add': '+', 'Sub': '-', 'Mul': '*', 'Div': '/', 'Rem': '%',
               'AddUnchecked': '+', 'SubUnchecked': '-', 'MulUnchecked': '*'}
        if op in tab:
            if op in ('Div', 'Rem'):
                st.side.append((tuple(st.pc), cmp_('!=', b, 0 if not is_real(b) else Fraction(0)), 'division by zero'))
            return arith(tab[op], a, b)
        ctab = {'Lt': '<', 'Le': '<=', 'Gt': '>', 'Ge': '>=', 'Eq': '==', 'Ne': '!='}
        if op in ctab:
            if isinstance(a, (bool,)) or isinstance(b, bool) or (is_z3(a) and a.sort() == z3.BoolSort()):
                A = a if isinstance(a, bool) else a
                B = b if isinstance(b, bool) else b
                if isinstance(A, bool) and isinstance(B, bool):
                    return (A == B) if op == 'Eq' else (A != B)
                e = to_z3(A) == to_z3(B)
                return e if op == 'Eq' else z3.Not(e)
            return cmp_(ctab[op], a, b)
        if op in ('AddWithOverflow', 'SubWithOverflow', 'MulWithOverflow'):
            r = arith({'A': '+', 'S': '-', 'M': '*'}[op[0]], a, b)
            # the overflow flag is decided by the obligation through the recorded assert:
            # we return a symbolic flag object that the assert terminator recognises
            return Agg('tuple', (r, OverflowFlag(op, r)))
        if op in ('BitAnd', 'BitOr', 'BitXor') and all(isinstance(x, bool) or (is_z3(x) and x.sort() == z3.BoolSort()) for x in (a, b)):
            if op == 'BitAnd': return b_and(a, b)
            if op == 'BitOr': return b_or(a, b)
            return b_not(to_z3(a) == to_z3(b)) if is_z3(a) or is_z3(b) else (a != b)
        if op in ('BitAnd', 'BitOr', 'BitXor', 'Shl', 'Shr') and isinstance(a, int) and isinstance(b, int):
            return {'BitAnd': a & b, 'BitOr': a | b, 'BitXor': a ^ b, 'Shl': a << b, 'Shr': a >> b}[op]
        if op in ('Shr', 'Shl', 'ShrUnchecked', 'ShlUnchecked') and isinstance(b, int) and 0 <= b < 128 and is_z3(a) and a.sort() == z3.IntSort():
            # mathematical reading: arithmetic shift right = floor division by 2^b; shift left = multiplication (wrap-around outside the claim:
            # Shl on a symbolic value is only accepted for unchecked / checked shifts whose overflow the MIR asserts separately)
            return a / (2 ** b) if op.startswith('Shr') else a * (2 ** b)
        raise Unsupported('binop %s on %r %r' % (op, a, b))

    # ------------------------------------------------------------------ execution
    def feasible(self, st, extra):
        if not self.prune:
            return True
        if isinstance(extra, bool):
            return extra
        self.solver.push()
        try:
            for c in st.pc:
                self.solver.add(c)
            for c in st.defs:
                self.solver.add(c)
            self.solver.add(extra)
            r = self.solver.check()
        finally:
            self.solver.pop()
        return r != z3.unsat

    def call(self, st, callee, args, generics, where=''):
        """returns list of (state, value); panicking paths are recorded in self.panics"""
        self.stats['calls'] += 1
        norm = normalize_callee(callee)
        if norm in self.overrides:
            r = self.overrides[norm](self, st, args, callee)
            return r if isinstance(r, list) else [(st, r)]
        # generic method on a type parameter bound by the harness
        name, binds = self.resolve(callee, generics)
        if name is not None:
            g = dict(generics)
            g.update(binds or {})
            return self.exec_fn(st, name, args, g)
        for rx, fn in self.models:
            if rx.fullmatch(norm):
                self.stats['model_calls'] += 1
                self.cur_generics = generics
                r = fn(self, st, args, callee)
                return r if isinstance(r, list) else [(st, r)]
        raise Unsupported('unsupported callee: %s  (normalised: %s) at %s' % (callee, norm, where))

    def call_closure(self, st, clo, args, generics=None):
        """call a closure value (Agg tagged 'closure:{closure@..}' or a Ref to one) with an argument list"""
        v = clo
        if isinstance(v, Ref):
            v = self.deref_read(st, v)
        if not (isinstance(v, Agg) and v.tag.startswith('closure:')):
            raise Unsupported('not a closure: %r' % (clo,))
        key = v.tag[len('closure:'):]
        name = self.closures.get(key)
        if name is None:
            raise Unsupported('closure body not found: ' + key)
        f = self.funcs[name]
        # first parameter is the closure itself (by value, & or &mut); remaining params: a single tuple in the
        # Fn* ABI is already untupled in MIR headers
        p0 = f.params[0][1]
        if p0.startswith('&'):
            hid = next(_heap_ids)
            st.heap[hid] = v
            selfarg = Ref(('H', hid))
        else:
            selfarg = v
        return self.exec_fn(st, name, [selfarg] + list(args), generics or self.generics)

    def exec_fn(self, st0, name, args, generics):
        f = self.funcs[name]
        self.stats['functions'].add(name)
        if len(args) != len(f.params):
            raise Unsupported('arity mismatch calling %s: %d args for %d params' % (name, len(args), len(f.params)))
        fid = next(_frame_ids)
        self.frame_fn[fid] = name
        st0.mem[fid] = {}
        for (n, _ty), a in zip(f.params, args):
            st0.mem[fid][n] = a
        work = [(st0, 'bb0')]
        outs = []
        while work:
            st, bname = work.pop()
            while True:
                st.visits += 1
                if st.visits > self.max_visits:
                    raise Unsupported('loop/visit bound exceeded in %s (bound %d): loop not unrolled within the bound' % (name, self.max_visits))
                blk = f.blocks[bname]
                for s in blk.stmts:
                    self.stats['stmts'] += 1
                    if s[0] == 'nop':
                        continue
                    if s[0] == 'assign':
                        v = self.eval_rvalue(st, fid, s[2], f)
                        if s[2][0] == 'binop' and s[2][1].endswith('WithOverflow'):
                            v = self.overflow_tuple(v, s[1], f)
                        self.write_place(st, fid, s[1], v)
                    elif s[0] == 'setdisc':
                        raise Unsupported('SetDiscriminant')
                    else:
                        raise Unsupported('statement: %r in %s' % (s, name))
                t = blk.term
                k = t[0]
                if k == 'goto':
                    bname = t[1]
                    continue
                if k == 'return':
                    rv = st.mem[fid].get(0, UNIT)
                    outs.append((st, rv))
                    break
                if k == 'unreachable':
                    raise Unsupported('reached `unreachable` in %s %s' % (name, bname))
                if k == 'drop':
                    bname = t[2]
                    continue
                if k == 'assert':
                    c = self.eval_operand(st, fid, t[1])
                    cond = b_not(c) if t[2] else c
                    if isinstance(cond, bool):
                        if not cond:
                            self.panics.append((tuple(st.pc), 'assert failed (concrete): ' + t[3], st))
                            break
                    else:
                        st.asserts.append((tuple(st.pc), cond, t[3], '%s:%s' % (name, bname)))
                        st.pc.append(cond)
                    bname = t[4]
                    continue
                if k == 'switch':
                    v = self.eval_operand(st, fid, t[1])
                    if isinstance(v, bool):
                        v = int(v)
                    if isinstance(v, int):
                        tgt = None
                        for val, bb in t[2]:
                            if val == v:
                                tgt = bb
                        if tgt is None:
                            tgt = t[3]
                        if tgt is None:
                            raise Unsupported('switch without target')
                        bname = tgt
                        continue
                    # symbolic: fork
                    branches = []
                    is_bool = v.sort() == z3.BoolSort()
                    taken = []
                    for val, bb in t[2]:
                        if is_bool:
                            cond = v if val != 0 else z3.Not(v)
                        else:
                            cond = v == val
                        branches.append((cond, bb)); taken.append(cond)
                    if t[3] is not None:
                        oc = z3.And([z3.Not(c) for c in taken]) if len(taken) > 1 else z3.Not(taken[0])
                        branches.append((oc, t[3]))
                    live = [(c, bb) for c, bb in branches if self.feasible(st, c)]
                    if not live:
                        break
                    self.stats['forks'] += max(0, len(live) - 1)
                    for c, bb in live[1:]:
                        s2 = st.fork()
                        s2.pc.append(c)
                        work.append((s2, bb))
                        if len(work) + len(outs) > self.max_paths:
                            raise Unsupported('path bound exceeded (%d)' % self.max_paths)
                    st.pc.append(live[0][0])
                    bname = live[0][1]
                    continue
                if k == 'call':
                    dest, callee, aops, ret = t[1], t[2], t[3], t[4]
                    argv = [self.eval_operand(st, fid, o) for o in aops]
                    norm = normalize_callee(callee)
                    if norm in PANIC_FNS:
                        self.panics.append((tuple(st.pc), norm + ' in ' + name, st))
                        break
                    res = self.call(st, callee, argv, generics, where='%s:%s' % (name, bname))
                    if ret is None:
                        # diverging call
                        break
                    first = True
                    for (s2, val) in res:
                        self.write_place(s2, fid, dest, val)
                        if s2 is st and first:
                            first = False
                        work.append((s2, ret))
                    break
                if k == 'resume':
                    break
                raise Unsupported('terminator %r in %s' % (t, name))
        return outs


INT_RANGE = {'i8': (-2**7, 2**7 - 1), 'i16': (-2**15, 2**15 - 1), 'i32': (-2**31, 2**31 - 1),
             'i64': (-2**63, 2**63 - 1), 'isize': (-2**63, 2**63 - 1), 'i128': (-2**127, 2**127 - 1),
             'u8': (0, 2**8 - 1), 'u16': (0, 2**16 - 1), 'u32': (0, 2**32 - 1), 'u64': (0, 2**64 - 1),
             'usize': (0, 2**64 - 1), 'u128': (0, 2**128 - 1)}


def _overflow_tuple(self, v, place, f):
    if place[0] != 'local':
        raise Unsupported('WithOverflow into projection')
    ty = f.local_ty.get(place[1], '')
    m = re.match(r'^\((\w+), bool\)$', ty)
    if not m or m.group(1) not in INT_RANGE:
        raise Unsupported('WithOverflow result type ' + ty)
    lo, hi = INT_RANGE[m.group(1)]
    r = v.items[0]
    flag = b_or(cmp_('<', r, lo), cmp_('>', r, hi))
    return Agg('tuple', (r, flag))


Interp.overflow_tuple = _overflow_tuple


class OverflowFlag:
    """placeholder for the `.1` of a *WithOverflow result; only ever consumed by an assert."""
    def __init__(self, op, result):
        self.op = op
        self.result = result

    def __repr__(self):
        return 'OverflowFlag(%s)' % self.op


PANIC_FNS = {'panic_fmt', 'core::panicking::panic_fmt', 'core::panicking::assert_failed',
             'core::panicking::panic', 'std::rt::begin_panic', 'core::panicking::panic_bounds_check',
             'core::panicking::unreachable_display', 'core::option::expect_failed', 'core::option::unwrap_failed'}


def strip_turbofish(s):
    out = []
    i, n = 0, len(s)
    while i < n:
        if s.startswith('::<', i) and not s.startswith('::<impl ', i):
            depth = 0
            j = i + 2
            while j < n:
                ch = s[j]
                if ch == '<':
                    depth += 1
                elif ch == '>' and s[j - 1] not in '-=':
                    depth -= 1
                    if depth == 0:
                        break
                j += 1
            i = j + 1
            continue
        out.append(s[i]); i += 1
    return ''.join(out)


def type_args(ty):
    """FaceIntegrator<I> -> ['I'];  ConvexCell<M> -> ['M']; Plane -> []"""
    m = re.match(r'^[\w:]+<(.*)>$', ty.strip())
    if not m:
        return []
    return [a.strip() for a in M.split_top(m.group(1))]


def strip_generics(s):
    """Vec<HalfSpace> -> Vec ;  convex_cell::ConvexCell<M> -> convex_cell::ConvexCell"""
    out = []
    depth = 0
    for i, c in enumerate(s):
        if c == '<':
            depth += 1
        elif c == '>' and depth > 0 and not (i > 0 and s[i - 1] == '-'):
            depth -= 1
        elif depth == 0:
            out.append(c)
    return ''.join(out).strip()


def normalize_callee(c):
    c = c.strip()
    c = re.sub(r"'\w+", "'_", c)
    m = re.match(r'^<(.+) as (.+?)>::(\w+)(?:::<.*>)?$', c)
    if m:
        ty = m.group(1).strip()
        tr = m.group(2).strip()
        # keep one level of generic detail for arithmetic traits (Mul<DVec3>) – they select the model
        ty_n = strip_generics(ty) if not ty.startswith('[') else ty
        if re.match(r'^(Mul|Div|Add|Sub|AddAssign|SubAssign|MulAssign|DivAssign|Index|IndexMut|From|Into|PartialOrd|PartialEq)<', tr):
            tr_n = tr
        else:
            tr_n = strip_generics(tr)
        return '<%s as %s>::%s' % (ty_n, tr_n, m.group(3))
    return strip_turbofish(c)
