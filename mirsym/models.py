"""Model table of Engine M: meaning of the external (glam / core / alloc / big-integer)
operations that occur in the targeted functions.  Keys are regular expressions on
the *normalised* callee (see interp.normalize_callee).  Anything not listed makes
the encoding abort (inconclusive).

f64 operations are modelled over the reals (stated abstraction).  sqrt introduces
a fresh s with s >= 0, s*s = x (definitional constraints in state.defs) and the
side condition x >= 0 (state.side); division records the side condition b != 0.
"""
import re
from fractions import Fraction

import z3

from .interp import (Agg, Var, Ref, SymArr, Opaque, UNIT, Unsupported, arith, cmp_, neg, b_not, b_and, b_or,
                     ite, merge, to_z3, is_z3, is_real, fresh_real, fresh_int, fresh_bool)

MODELS = []


def model(*patterns):
    def deco(fn):
        for p in patterns:
            MODELS.append((re.compile(p), fn))
        return fn
    return deco


def V3(x, y, z):
    return Agg('DVec3', (x, y, z))


def vitems(v, n=None):
    if not isinstance(v, Agg):
        raise Unsupported('vector expected, got %r' % (v,))
    return v.items


def vmap2(op, a, b):
    return Agg(a.tag, [arith(op, x, y) for x, y in zip(a.items, b.items)])


def vscale(op, a, s):
    return Agg(a.tag, [arith(op, x, s) for x in a.items])


def dot(a, b):
    r = None
    for x, y in zip(a.items, b.items):
        t = arith('*', x, y)
        r = t if r is None else arith('+', r, t)
    return r


def cross(a, b):
    ax, ay, az = a.items
    bx, by, bz = b.items
    return V3(arith('-', arith('*', ay, bz), arith('*', by, az)),
              arith('-', arith('*', az, bx), arith('*', bz, ax)),
              arith('-', arith('*', ax, by), arith('*', bx, ay)))


def side_nonzero(st, x, msg):
    st.side.append((tuple(st.pc), cmp_('!=', x, Fraction(0)), msg))


def div_real(st, a, b, msg='division by zero'):
    side_nonzero(st, b, msg)
    if not is_z3(a) and not is_z3(b):
        if b == 0:
            raise Unsupported('concrete division by zero')
        return Fraction(a) / Fraction(b)
    return arith('/', a, b)


def sqrt_real(st, x, msg='sqrt of negative'):
    if not is_z3(x):
        x = Fraction(x)
        if x < 0:
            raise Unsupported('sqrt of concrete negative')
        # exact rational square roots stay concrete
        from math import isqrt
        n, d = x.numerator, x.denominator
        if isqrt(n) ** 2 == n and isqrt(d) ** 2 == d:
            return Fraction(isqrt(n), isqrt(d))
    s = fresh_real('sqrt')
    X = to_z3(x)
    st.defs.append(z3.And(s >= 0, s * s == X))
    st.sqrts.append((s, X))
    st.side.append((tuple(st.pc), X >= 0, msg))
    return s


def f_abs(x):
    if not is_z3(x):
        return abs(x)
    return z3.If(x >= 0, x, -x)


def f_signum(x):
    # f64::signum: 1.0 for +0.0 and positives, -1.0 for -0.0 and negatives.  Over the reals zero is +0.
    if not is_z3(x):
        return Fraction(1) if x >= 0 else Fraction(-1)
    return z3.If(x >= 0, z3.RealVal(1), z3.RealVal(-1))


def f_min(a, b):
    if not is_z3(a) and not is_z3(b):
        return min(a, b)
    return z3.If(to_z3(a) <= to_z3(b), to_z3(a), to_z3(b))


def f_max(a, b):
    if not is_z3(a) and not is_z3(b):
        return max(a, b)
    return z3.If(to_z3(a) >= to_z3(b), to_z3(a), to_z3(b))


def det3(c0, c1, c2):
    # glam DMat3::determinant: z_axis.dot(x_axis.cross(y_axis))
    return dot(c2, cross(c0, c1))


def det_n(rows):
    n = len(rows)
    if n == 1:
        return rows[0][0]
    r = None
    for j in range(n):
        minor = [row[:j] + row[j + 1:] for row in rows[1:]]
        t = arith('*', rows[0][j], det_n(minor))
        if j % 2:
            t = neg(t)
        r = t if r is None else arith('+', r, t)
    return r


# ----------------------------------------------------------------------------- glam

@model(r'<DVec3 as Add>::add', r'<DVec4 as Add>::add', r'<DVec3 as Add<DVec3>>::add')
def _(i, st, a, c): return vmap2('+', a[0], a[1])


@model(r'<DVec3 as Sub>::sub', r'<DVec4 as Sub>::sub', r'<DVec3 as Sub<DVec3>>::sub')
def _(i, st, a, c): return vmap2('-', a[0], a[1])


@model(r'<DVec3 as Mul>::mul', r'<DVec4 as Mul>::mul', r'<DVec3 as Mul<DVec3>>::mul')
def _(i, st, a, c): return vmap2('*', a[0], a[1])


@model(r'<DVec3 as Mul<f64>>::mul', r'<DVec4 as Mul<f64>>::mul')
def _(i, st, a, c): return vscale('*', a[0], a[1])


@model(r'<f64 as Mul<DVec3>>::mul', r'<f64 as Mul<DVec4>>::mul')
def _(i, st, a, c): return vscale('*', a[1], a[0])


@model(r'<DVec3 as Div<f64>>::div')
def _(i, st, a, c):
    side_nonzero(st, a[1], 'DVec3 / f64 by zero')
    return Agg(a[0].tag, [div_real(st, x, a[1]) for x in a[0].items])


@model(r'<DVec3 as Div>::div', r'<DVec3 as Div<DVec3>>::div')
def _(i, st, a, c):
    return Agg(a[0].tag, [div_real(st, x, y) for x, y in zip(a[0].items, a[1].items)])


@model(r'<f64 as Div<DVec3>>::div')
def _(i, st, a, c):
    return Agg(a[1].tag, [div_real(st, a[0], y) for y in a[1].items])


@model(r'<DVec3 as Add<f64>>::add')
def _(i, st, a, c): return vscale('+', a[0], a[1])


@model(r'<f64 as Add<DVec3>>::add')
def _(i, st, a, c): return vscale('+', a[1], a[0])


@model(r'<DVec3 as Sub<f64>>::sub')
def _(i, st, a, c): return vscale('-', a[0], a[1])


@model(r'<f64 as Sub<DVec3>>::sub')
def _(i, st, a, c): return Agg(a[1].tag, [arith('-', a[0], y) for y in a[1].items])


@model(r'DVec3::mul_add')
def _(i, st, a, c): return vmap2('+', vmap2('*', a[0], a[1]), a[2])


@model(r'DVec3::element_sum')
def _(i, st, a, c):
    r = None
    for x in a[0].items:
        r = x if r is None else arith('+', r, x)
    return r


@model(r'DVec3::element_product')
def _(i, st, a, c):
    r = None
    for x in a[0].items:
        r = x if r is None else arith('*', r, x)
    return r


@model(r'DVec3::length_recip')
def _(i, st, a, c):
    return div_real(st, Fraction(1), sqrt_real(st, dot(a[0], a[0])))


@model(r'DVec3::normalize_or_zero', r'DVec3::try_normalize')
def _(i, st, a, c):
    raise Unsupported('normalize_or_zero / try_normalize (branching on a float threshold) is not modelled')


@model(r'DVec3::truncate')
def _(i, st, a, c): return Agg('DVec2', list(a[0].items)[:2])


@model(r'DVec3::signum')
def _(i, st, a, c): return Agg(a[0].tag, [f_signum(x) for x in a[0].items])


@model(r'DVec3::recip')
def _(i, st, a, c): return Agg(a[0].tag, [div_real(st, Fraction(1), x) for x in a[0].items])


@model(r'DVec3::lerp')
def _(i, st, a, c): return vmap2('+', a[0], vscale('*', vmap2('-', a[1], a[0]), a[2]))


@model(r'DVec3::midpoint')
def _(i, st, a, c): return vscale('*', vmap2('+', a[0], a[1]), Fraction(1, 2))


@model(r'<DVec3 as Neg>::neg')
def _(i, st, a, c): return Agg(a[0].tag, [neg(x) for x in a[0].items])


def _assign(op):
    def f(i, st, a, c):
        cur = i.deref_read(st, a[0])
        rhs = a[1]
        if isinstance(rhs, Agg):
            new = vmap2(op, cur, rhs)
        else:
            new = vscale(op, cur, rhs)
        i.deref_write(st, a[0], new)
        return UNIT
    return f


MODELS.append((re.compile(r'<DVec3 as AddAssign>::add_assign|<DVec3 as AddAssign<DVec3>>::add_assign'), _assign('+')))
MODELS.append((re.compile(r'<DVec3 as SubAssign>::sub_assign|<DVec3 as SubAssign<DVec3>>::sub_assign'), _assign('-')))
MODELS.append((re.compile(r'<DVec3 as MulAssign<f64>>::mul_assign|<DVec3 as MulAssign>::mul_assign|<DVec3 as MulAssign<DVec3>>::mul_assign'), _assign('*')))
MODELS.append((re.compile(r'<DVec3 as AddAssign<f64>>::add_assign'), _assign('+')))
MODELS.append((re.compile(r'<DVec3 as SubAssign<f64>>::sub_assign'), _assign('-')))


@model(r'<DVec3 as DivAssign<f64>>::div_assign')
def _(i, st, a, c):
    cur = i.deref_read(st, a[0])
    i.deref_write(st, a[0], Agg(cur.tag, [div_real(st, x, a[1]) for x in cur.items]))
    return UNIT


@model(r'DVec3::dot', r'DVec4::dot')
def _(i, st, a, c): return dot(a[0], a[1])


@model(r'DVec3::cross')
def _(i, st, a, c): return cross(a[0], a[1])


@model(r'DVec3::length_squared')
def _(i, st, a, c): return dot(a[0], a[0])


@model(r'DVec3::length')
def _(i, st, a, c): return sqrt_real(st, dot(a[0], a[0]))


@model(r'DVec3::distance_squared')
def _(i, st, a, c):
    d = vmap2('-', a[0], a[1])
    return dot(d, d)


@model(r'DVec3::distance')
def _(i, st, a, c):
    d = vmap2('-', a[0], a[1])
    return sqrt_real(st, dot(d, d))


@model(r'DVec3::normalize')
def _(i, st, a, c):
    l = sqrt_real(st, dot(a[0], a[0]))
    return Agg('DVec3', [div_real(st, x, l, 'normalize of zero vector') for x in a[0].items])


@model(r'DVec3::project_onto')
def _(i, st, a, c):
    # glam: rhs * self.dot(rhs) * rhs.length_squared().recip()
    v, r = a
    k = div_real(st, dot(v, r), dot(r, r), 'project_onto zero vector')
    return vscale('*', r, k)


@model(r'DVec3::abs')
def _(i, st, a, c): return Agg('DVec3', [f_abs(x) for x in a[0].items])


@model(r'DVec3::min')
def _(i, st, a, c): return Agg('DVec3', [f_min(x, y) for x, y in zip(a[0].items, a[1].items)])


@model(r'DVec3::max')
def _(i, st, a, c): return Agg('DVec3', [f_max(x, y) for x, y in zip(a[0].items, a[1].items)])


@model(r'DVec3::min_element')
def _(i, st, a, c):
    x, y, z = a[0].items
    return f_min(f_min(x, y), z)


@model(r'DVec3::max_element')
def _(i, st, a, c):
    x, y, z = a[0].items
    return f_max(f_max(x, y), z)


@model(r'DVec3::extend')
def _(i, st, a, c): return Agg('DVec4', tuple(a[0].items) + (a[1],))


@model(r'DVec4::new')
def _(i, st, a, c): return Agg('DVec4', list(a))


@model(r'DVec3::new')
def _(i, st, a, c): return V3(*a)


@model(r'DVec3::splat')
def _(i, st, a, c): return V3(a[0], a[0], a[0])


@model(r'DVec3::from_array', r'<DVec3 as From<\[f64; 3\]>>::from')
def _(i, st, a, c): return V3(*a[0].items)


@model(r'DVec3::to_array')
def _(i, st, a, c): return Agg('array', a[0].items)


@model(r'<DVec3 as Clone>::clone', r'<DVec4 as Clone>::clone', r'<f64 as Clone>::clone', r'<usize as Clone>::clone',
       r'<bool as Clone>::clone', r'<Option as Clone>::clone', r'<\[f64; 3\] as Clone>::clone', r'<PhantomData as Clone>::clone',
       r'<\[usize; 3\] as Clone>::clone')
def _(i, st, a, c): return i.deref_read(st, a[0])


@model(r'<DVec3 as Default>::default')
def _(i, st, a, c): return V3(Fraction(0), Fraction(0), Fraction(0))


@model(r'<f64 as Default>::default')
def _(i, st, a, c): return Fraction(0)


@model(r'<[ui](8|16|32|64|128|size) as Default>::default')
def _(i, st, a, c): return 0


@model(r'<bool as Default>::default')
def _(i, st, a, c): return False


@model(r'<usize as Default>::default')
def _(i, st, a, c): return 0


@model(r'<DVec3 as Index<usize>>::index')
def _(i, st, a, c):
    r = a[0]
    return Ref(r.base, r.path + (a[1],))


@model(r'<DVec3 as IndexMut<usize>>::index_mut')
def _(i, st, a, c):
    r = a[0]
    return Ref(r.base, r.path + (a[1],))


@model(r'DMat3::from_cols')
def _(i, st, a, c): return Agg('DMat3', a)


@model(r'DMat3::determinant')
def _(i, st, a, c):
    m = a[0]
    if isinstance(m, Ref):
        m = i.deref_read(st, m)
    return det3(*m.items)


@model(r'DMat4::from_cols')
def _(i, st, a, c): return Agg('DMat4', a)


@model(r'DMat4::determinant')
def _(i, st, a, c):
    m = a[0]
    if isinstance(m, Ref):
        m = i.deref_read(st, m)
    cols = [list(col.items) for col in m.items]
    rows = [[cols[j][r] for j in range(4)] for r in range(4)]
    return det_n(rows)


# ----------------------------------------------------------------------------- core f64

@model(r'std::f64::<impl f64>::sqrt', r'core::f64::<impl f64>::sqrt')
def _(i, st, a, c): return sqrt_real(st, a[0])


@model(r'core::f64::<impl f64>::abs', r'std::f64::<impl f64>::abs')
def _(i, st, a, c): return f_abs(a[0])


@model(r'core::f64::<impl f64>::signum', r'std::f64::<impl f64>::signum')
def _(i, st, a, c): return f_signum(a[0])


@model(r'core::f64::<impl f64>::min', r'std::f64::<impl f64>::min')
def _(i, st, a, c): return f_min(a[0], a[1])


@model(r'core::f64::<impl f64>::max', r'std::f64::<impl f64>::max')
def _(i, st, a, c): return f_max(a[0], a[1])


@model(r'core::f64::<impl f64>::copysign', r'std::f64::<impl f64>::copysign')
def _(i, st, a, c):
    x, y = a
    ax_ = f_abs(x)
    if not is_z3(y):
        return ax_ if y >= 0 else neg(ax_)
    return z3.If(to_z3(y) >= 0, to_z3(ax_), -to_z3(ax_))


@model(r'core::f64::<impl f64>::recip')
def _(i, st, a, c): return div_real(st, Fraction(1), a[0])


@model(r'core::f64::<impl f64>::is_finite')
def _(i, st, a, c): return True       # reals are finite (stated abstraction)


@model(r'core::num::<impl i(8|16|32|64|128|size)>::unsigned_abs', r'core::num::<impl i(64|128|size)>::abs')
def _(i, st, a, c):
    x = a[0]
    if not is_z3(x):
        return abs(x)
    return z3.If(x >= 0, x, -x)


@model(r'core::num::<impl i(8|16|32|64|128|size)>::signum')
def _(i, st, a, c):
    x = a[0]
    if not is_z3(x):
        return (x > 0) - (x < 0)
    return z3.If(x > 0, z3.IntVal(1), z3.If(x < 0, z3.IntVal(-1), z3.IntVal(0)))


def _int_bits(callee):
    m = re.search(r'<impl ([ui])(8|16|32|64|128|size)>', callee)
    if not m:
        raise Unsupported('integer width of ' + callee)
    return m.group(1), 64 if m.group(2) == 'size' else int(m.group(2))


def _wrap(v, sg, bits):
    if is_z3(v):
        if sg == 'u':
            return v % (1 << bits)
        return (v + (1 << (bits - 1))) % (1 << bits) - (1 << (bits - 1))
    w = v % (1 << bits)
    return w if sg == 'u' or w < (1 << (bits - 1)) else w - (1 << bits)


@model(r'core::num::<impl [ui](8|16|32|64|128|size)>::wrapping_(add|sub|mul)')
def _(i, st, a, c):
    sg, bits = _int_bits(c)
    op = re.search(r'wrapping_(add|sub|mul)', c).group(1)
    r = arith({'add': '+', 'sub': '-', 'mul': '*'}[op], a[0], a[1])
    return _wrap(r, sg, bits)


@model(r'core::num::<impl [ui](8|16|32|64|128|size)>::saturating_(add|sub)')
def _(i, st, a, c):
    sg, bits = _int_bits(c)
    op = re.search(r'saturating_(add|sub)', c).group(1)
    lo, hi = (0, (1 << bits) - 1) if sg == 'u' else (-(1 << (bits - 1)), (1 << (bits - 1)) - 1)
    r = arith('+' if op == 'add' else '-', a[0], a[1])
    if is_z3(r):
        return z3.If(r > hi, z3.IntVal(hi), z3.If(r < lo, z3.IntVal(lo), r))
    return max(lo, min(hi, r))


@model(r'core::num::<impl i32>::abs')
def _(i, st, a, c):
    x = a[0]
    return abs(x) if not is_z3(x) else z3.If(x >= 0, x, -x)


@model(r'<f64 as PartialOrd>::partial_cmp', r'<f64 as PartialOrd<f64>>::partial_cmp')
def _(i, st, a, c):
    x = i.deref_read(st, a[0]); y = i.deref_read(st, a[1])
    return fork_ordering(i, st, x, y, wrap_some=True)


def fork_ordering(i, st, x, y, wrap_some):
    def mk(name):
        o = Var(name, (), 'Ordering')
        return Var('Some', (o,), 'Option') if wrap_some else o
    if not is_z3(x) and not is_z3(y):
        return mk('Less' if x < y else ('Equal' if x == y else 'Greater'))
    out = []
    for name, cond in (('Less', cmp_('<', x, y)), ('Equal', cmp_('==', x, y)), ('Greater', cmp_('>', x, y))):
        if i.feasible(st, cond):
            s2 = st.fork()
            s2.pc.append(cond)
            out.append((s2, mk(name)))
    return out


@model(r'<usize as Ord>::cmp', r'<i64 as Ord>::cmp')
def _(i, st, a, c):
    x = i.deref_read(st, a[0]); y = i.deref_read(st, a[1])
    return fork_ordering(i, st, x, y, wrap_some=False)


# ----------------------------------------------------------------------------- Option / Result

@model(r'Option::expect', r'Option::unwrap')
def _(i, st, a, c):
    v = a[0]
    if isinstance(v, Var) and v.name == 'Some':
        return v.items[0]
    if isinstance(v, Var) and v.name == 'None':
        i.panics.append((tuple(st.pc), 'expect/unwrap on None', st))
        return []
    raise Unsupported('Option::expect on %r' % (v,))


@model(r'Result::expect', r'Result::unwrap')
def _(i, st, a, c):
    v = a[0]
    if isinstance(v, Var) and v.name == 'Ok':
        return v.items[0]
    if isinstance(v, Var) and v.name == 'Err':
        i.panics.append((tuple(st.pc), 'expect/unwrap on Err', st))
        return []
    raise Unsupported('Result::expect on %r' % (v,))


@model(r'<Option as Try>::branch')
def _(i, st, a, c):
    v = a[0]
    if isinstance(v, Var) and v.name == 'Some':
        return Var('Continue', (v.items[0],), 'ControlFlow')
    if isinstance(v, Var) and v.name == 'None':
        return Var('Break', (Var('None', (), 'Option'),), 'ControlFlow')
    raise Unsupported('Try::branch on %r' % (v,))


@model(r'<Option as FromResidual>::from_residual', r'<Option as FromResidual<Option>>::from_residual')
def _(i, st, a, c): return Var('None', (), 'Option')


@model(r'<Result as Try>::branch')
def _(i, st, a, c):
    v = a[0]
    if isinstance(v, Var) and v.name == 'Ok':
        return Var('Continue', (v.items[0],), 'ControlFlow')
    if isinstance(v, Var) and v.name == 'Err':
        return Var('Break', (v,), 'ControlFlow')
    raise Unsupported('Try::branch on %r' % (v,))


@model(r'<Result as FromResidual>::from_residual', r'<Result as FromResidual<Result>>::from_residual')
def _(i, st, a, c): return a[0]


@model(r'Option::map_or')
def _(i, st, a, c):
    opt, default, clo = a
    if isinstance(opt, Var) and opt.name == 'None':
        return default
    if isinstance(opt, Var) and opt.name == 'Some':
        return i.call_closure(st, clo, [opt.items[0]])
    raise Unsupported('map_or on %r' % (opt,))


@model(r'Option::map')
def _(i, st, a, c):
    opt, clo = a
    if isinstance(opt, Var) and opt.name == 'None':
        return Var('None', (), 'Option')
    if isinstance(opt, Var) and opt.name == 'Some':
        res = i.call_closure(st, clo, [opt.items[0]])
        return [(s, Var('Some', (v,), 'Option')) for s, v in res]
    raise Unsupported('map on %r' % (opt,))


@model(r'Option::as_ref', r'Option::as_mut')
def _(i, st, a, c):
    r = a[0]
    v = i.deref_read(st, r)
    if isinstance(v, Var) and v.name == 'None':
        return Var('None', (), 'Option')
    if isinstance(v, Var) and v.name == 'Some':
        return Var('Some', (Ref(r.base, r.path + (0,)),), 'Option')
    raise Unsupported('as_ref on %r' % (v,))


@model(r'Option::is_none')
def _(i, st, a, c):
    v = i.deref_read(st, a[0])
    return v.name == 'None'


@model(r'Option::is_some')
def _(i, st, a, c):
    v = i.deref_read(st, a[0])
    return v.name == 'Some'


@model(r'Option::get_or_insert')
def _(i, st, a, c):
    r, val = a
    v = i.deref_read(st, r)
    if v.name == 'None':
        i.deref_write(st, r, Var('Some', (val,), 'Option'))
    return Ref(r.base, r.path + (0,))


@model(r'Option::get_or_insert_with')
def _(i, st, a, c):
    r, clo = a
    v = i.deref_read(st, r)
    if v.name == 'Some':
        return Ref(r.base, r.path + (0,))
    res = i.call_closure(st, clo, [])
    out = []
    for s, val in res:
        i.deref_write(s, r, Var('Some', (val,), 'Option'))
        out.append((s, Ref(r.base, r.path + (0,))))
    return out


# ----------------------------------------------------------------------------- Vec / slices

@model(r'<Vec as Index<usize>>::index', r'<Vec as IndexMut<usize>>::index_mut',
       r'<\[.*\] as Index<usize>>::index', r'<\[.*\] as IndexMut<usize>>::index_mut')
def _(i, st, a, c):
    r, idx = a
    v = i.deref_read(st, r)
    n = v.length if isinstance(v, SymArr) else len(v.items)
    inb = b_and(cmp_('>=', idx, 0), cmp_('<', idx, n))
    if isinstance(inb, bool):
        if not inb:
            i.panics.append((tuple(st.pc), 'index out of bounds (Vec/slice index)', st))
            return []
    else:
        st.asserts.append((tuple(st.pc), inb, 'index out of bounds (Vec/slice index)', 'model'))
        st.pc.append(inb)
    off = r.win[0] if r.win is not None else 0
    if is_z3(idx) and isinstance(v, Agg) and v.items and not all(isinstance(x, (int, bool, Fraction)) or is_z3(x) for x in v.items):
        # elements are aggregates (cannot be merged by ite when their shapes differ): enumerate the feasible concrete indices
        out = []
        for k in range(len(v.items)):
            cond = idx == k
            if i.feasible(st, cond):
                s2 = st.fork()
                s2.pc.append(cond)
                out.append((s2, Ref(r.base, r.path + (k + off,))))
        return out
    return Ref(r.base, r.path + (arith('+', idx, off) if off else idx,))


@model(r'<Vec as Deref>::deref', r'<Vec as DerefMut>::deref_mut', r'Vec::as_slice', r'Vec::as_mut_slice',
       r'<Vec as AsRef<\[.*\]>>::as_ref', r'<Vec as Borrow<\[.*\]>>::borrow')
def _(i, st, a, c): return a[0]


@model(r'Vec::len', r'core::slice::<impl \[.*\]>::len')
def _(i, st, a, c):
    v = i.deref_read(st, a[0])
    if isinstance(v, SymArr):
        return v.length
    return len(v.items)


@model(r'Vec::new')
def _(i, st, a, c): return Agg('Vec', ())


@model(r'Vec::with_capacity')
def _(i, st, a, c): return Agg('Vec', ())


@model(r'Vec::reserve', r'Vec::reserve_exact', r'Vec::shrink_to_fit')
def _(i, st, a, c): return UNIT


@model(r'Vec::pop')
def _(i, st, a, c):
    v = i.deref_read(st, a[0])
    items = list(v.items)
    if not items:
        return Var('None', (), 'Option')
    i.deref_write(st, a[0], Agg(v.tag, items[:-1]))
    return Var('Some', (items[-1],), 'Option')


@model(r'Vec::push')
def _(i, st, a, c):
    v = i.deref_read(st, a[0])
    i.deref_write(st, a[0], Agg(v.tag, tuple(v.items) + (a[1],)))
    return UNIT


@model(r'Vec::truncate')
def _(i, st, a, c):
    v = i.deref_read(st, a[0])
    n = a[1]
    if is_z3(n):
        raise Unsupported('symbolic truncate')
    i.deref_write(st, a[0], Agg(v.tag, tuple(v.items)[:n]))
    return UNIT


@model(r'std::slice::<impl \[.*\]>::to_vec', r'core::slice::<impl \[.*\]>::to_vec', r'alloc::slice::<impl \[.*\]>::to_vec')
def _(i, st, a, c):
    v = i.deref_read(st, a[0])
    items = list(v.items)
    if isinstance(a[0], Ref) and a[0].win is not None:
        items = items[a[0].win[0]:a[0].win[0] + a[0].win[1]]
    return Agg('Vec', items)


@model(r'Vec::is_empty', r'core::slice::<impl \[.*\]>::is_empty')
def _(i, st, a, c):
    v = i.deref_read(st, a[0])
    if isinstance(a[0], Ref) and a[0].win is not None:
        return a[0].win[1] == 0
    return len(v.items) == 0


@model(r'<Vec as Clone>::clone')
def _(i, st, a, c): return i.deref_read(st, a[0])


@model(r'core::slice::<impl \[.*\]>::swap')
def _(i, st, a, c):
    r, x, y = a
    v = i.deref_read(st, r)
    if is_z3(x) or is_z3(y):
        raise Unsupported('symbolic swap')
    items = list(v.items)
    items[x], items[y] = items[y], items[x]
    i.deref_write(st, r, Agg(v.tag, items))
    return UNIT


# ----------------------------------------------------------------------------- ranges

@model(r'<std::ops::Range as IntoIterator>::into_iter', r'<std::ops::RangeInclusive as IntoIterator>::into_iter',
       r'<std::ops::Range<.*> as IntoIterator>::into_iter', r'<std::ops::RangeInclusive<.*> as IntoIterator>::into_iter')
def _(i, st, a, c): return a[0]


@model(r'std::ops::RangeInclusive::new')
def _(i, st, a, c): return Agg('RangeInclusive', (a[0], a[1], False))


@model(r'<std::ops::RangeInclusive as Clone>::clone', r'<std::ops::RangeInclusive<.*> as Clone>::clone',
       r'<std::ops::Range as Clone>::clone')
def _(i, st, a, c): return i.deref_read(st, a[0])


@model(r'<std::ops::Range as Iterator>::next', r'<std::ops::Range<.*> as Iterator>::next')
def _(i, st, a, c):
    r = i.deref_read(st, a[0])
    lo, hi = r.items
    if is_z3(lo) or is_z3(hi):
        raise Unsupported('symbolic range bounds (loop trip count not concrete)')
    if lo < hi:
        i.deref_write(st, a[0], Agg(r.tag, (lo + 1, hi)))
        return Var('Some', (lo,), 'Option')
    return Var('None', (), 'Option')


@model(r'<std::ops::RangeInclusive as Iterator>::next', r'<std::ops::RangeInclusive<.*> as Iterator>::next')
def _(i, st, a, c):
    r = i.deref_read(st, a[0])
    lo, hi, done = r.items
    if is_z3(lo) or is_z3(hi):
        raise Unsupported('symbolic range bounds (loop trip count not concrete)')
    if done or lo > hi:
        return Var('None', (), 'Option')
    if lo == hi:
        i.deref_write(st, a[0], Agg(r.tag, (lo, hi, True)))
    else:
        i.deref_write(st, a[0], Agg(r.tag, (lo + 1, hi, False)))
    return Var('Some', (lo,), 'Option')


# ----------------------------------------------------------------------------- misc

@model(r'Arguments::from_str', r'Arguments::new_const', r'Arguments::new_v1', r'core::fmt::rt::Argument::new_display',
       r'core::fmt::rt::Argument::new_debug', r'Arguments::new')
def _(i, st, a, c): return Opaque('fmt::Arguments')


@model(r'<Dimensionality as Clone>::clone')
def _(i, st, a, c): return i.deref_read(st, a[0])


# ----------------------------------------------------------------------------- big integers as Z
# Six operations per backend.  The value of a big integer *is* a mathematical integer term.

BIGINT_TYPES = r'(?:IBig|Integer|BigInt|dashu::Integer|malachite_nz::integer::Integer|num_bigint::BigInt|IBig)'


@model(r'<%s as From<i64>>::from' % BIGINT_TYPES)
def _(i, st, a, c): return Agg('BigInt', (a[0],))


@model(r'<%s as Default>::default' % BIGINT_TYPES)
def _(i, st, a, c): return Agg('BigInt', (0,))


@model(r'<&%s as Mul>::mul' % BIGINT_TYPES, r'<&%s as Mul<&%s>>::mul' % (BIGINT_TYPES, BIGINT_TYPES))
def _(i, st, a, c):
    x = i.deref_read(st, a[0]); y = i.deref_read(st, a[1])
    return Agg('BigInt', (arith('*', x.items[0], y.items[0]),))


@model(r'<%s as AddAssign>::add_assign' % BIGINT_TYPES, r'<%s as AddAssign<%s>>::add_assign' % (BIGINT_TYPES, BIGINT_TYPES))
def _(i, st, a, c):
    x = i.deref_read(st, a[0])
    i.deref_write(st, a[0], Agg('BigInt', (arith('+', x.items[0], a[1].items[0]),)))
    return UNIT


@model(r'<%s as SubAssign>::sub_assign' % BIGINT_TYPES, r'<%s as SubAssign<%s>>::sub_assign' % (BIGINT_TYPES, BIGINT_TYPES))
def _(i, st, a, c):
    x = i.deref_read(st, a[0])
    i.deref_write(st, a[0], Agg('BigInt', (arith('-', x.items[0], a[1].items[0]),)))
    return UNIT


def _bigval(i, st, x):
    if isinstance(x, Ref):
        x = i.deref_read(st, x)
    if not (isinstance(x, Agg) and x.tag == 'BigInt'):
        raise Unsupported('big integer expected, got %r' % (x,))
    return x.items[0]


def _sgn(d):
    if not is_z3(d):
        return (d > 0) - (d < 0)
    return z3.If(d > 0, z3.IntVal(1), z3.If(d < 0, z3.IntVal(-1), z3.IntVal(0)))


# ibig / dashu:  determinant.signum().to_f64() [.value()]
@model(r'ibig::sign::<impl IBig>::signum', r'dashu_int::sign::<impl IBig>::signum', r'<IBig as Signed>::signum',
       r'<IBig as dashu::base::Signed>::signum', r'<IBig as dashu_base::sign::Signed>::signum')
def _(i, st, a, c):
    d = _bigval(i, st, a[0])
    st.events.append(('bigint_sign_arg', d))
    return Agg('BigInt', (_sgn(d),))


@model(r'ibig::convert::<impl IBig>::to_f64')
def _(i, st, a, c):
    d = _bigval(i, st, a[0])
    st.events.append(('bigint_to_f64_arg', d))
    st.side.append((tuple(st.pc), b_and(cmp_('<=', d, 2 ** 53), cmp_('>=', d, -2 ** 53)), 'IBig::to_f64 exact only within 2^53'))
    return Fraction(d) if not is_z3(d) else z3.ToReal(d)


@model(r'dashu_int::convert::<impl IBig>::to_f64')
def _(i, st, a, c):
    d = _bigval(i, st, a[0])
    st.events.append(('bigint_to_f64_arg', d))
    st.side.append((tuple(st.pc), b_and(cmp_('<=', d, 2 ** 53), cmp_('>=', d, -2 ** 53)), 'IBig::to_f64 exact only within 2^53'))
    return Agg('Approximation', (Fraction(d) if not is_z3(d) else z3.ToReal(d),))


@model(r'Approximation::value')
def _(i, st, a, c): return a[0].items[0]


def _fork3(i, st, d, names):
    """fork on the sign of integer term d; names = (neg, zero, pos) variant names"""
    st.events.append(('bigint_sign_arg', d))
    if not is_z3(d):
        return Var(names[0] if d < 0 else (names[1] if d == 0 else names[2]), ())
    out = []
    for nm, cond in ((names[0], d < 0), (names[1], d == 0), (names[2], d > 0)):
        if i.feasible(st, cond):
            s2 = st.fork()
            s2.pc.append(cond)
            out.append((s2, Var(nm, ())))
    return out


# malachite: determinant.sign() -> Ordering
@model(r'<Integer as malachite_base::num::arithmetic::traits::Sign>::sign')
def _(i, st, a, c): return _fork3(i, st, _bigval(i, st, a[0]), ('Less', 'Equal', 'Greater'))


# num_bigint: determinant.sign() -> Sign {Minus, NoSign, Plus}
@model(r'BigInt::sign')
def _(i, st, a, c): return _fork3(i, st, _bigval(i, st, a[0]), ('Minus', 'NoSign', 'Plus'))


# ----------------------------------------------------------------------------- std iterators as ordered lists
# Iterator adaptors are modelled positionally and order-preserving (what std documents): a ListIter holds the
# remaining items; Map/FilterMap/Zip/Enumerate/Flatten are evaluated eagerly when they are built from ListIters.

def list_iter(items):
    return Agg('ListIter', tuple(items))


def _as_list(i, st, v):
    if isinstance(v, Ref):
        v = i.deref_read(st, v)
    if isinstance(v, Agg) and v.tag == 'ListIter':
        return list(v.items)
    if isinstance(v, Agg) and v.tag == 'Range' and len(v.items) == 2 and not is_z3(v.items[0]) and not is_z3(v.items[1]):
        return list(range(v.items[0], v.items[1]))
    if isinstance(v, Agg) and v.tag == 'TakeIter':
        # adaptor over a crate-local iterator (SimpleCycle2Iterator): drained through its real `next`
        inner, n = v.items
        if is_z3(n):
            raise Unsupported('take() by a symbolic count')
        hid = next(_tmp_ids)
        st.heap[hid] = inner
        out = []
        for _ in range(n):
            res = i.call(st, "<SimpleCycle2Iterator<'_> as Iterator>::next", [Ref(('H', hid))], {})
            if len(res) != 1:
                raise Unsupported('forking iterator inside an adaptor')
            r = res[0][1]
            if isinstance(r, Var) and r.name == 'None':
                break
            out.append(r.items[0])
        return out
    raise Unsupported('iterator model: expected a list iterator, got %r' % (getattr(v, 'tag', v),))


def _elem_refs(i, st, r):
    v = i.deref_read(st, r)
    if isinstance(v, SymArr):
        raise Unsupported('iteration over a symbolic-length slice')
    off = r.win[0] if r.win is not None else 0
    return [Ref(r.base, r.path + (k + off,)) for k in range(len(v.items))]


@model(r'std::vec::from_elem')
def _(i, st, a, c):
    n = a[1]
    if is_z3(n):
        raise Unsupported('from_elem with symbolic length')
    return Agg('Vec', [a[0]] * n)


@model(r'<Vec as IntoIterator>::into_iter', r'<\[.*; \d+\] as IntoIterator>::into_iter')
def _(i, st, a, c): return list_iter(a[0].items)


@model(r'core::slice::<impl \[.*\]>::iter', r'core::slice::<impl \[.*\]>::iter_mut',
       r'<&Vec as IntoIterator>::into_iter', r'<&mut Vec as IntoIterator>::into_iter',
       r'<&\[.*\] as IntoIterator>::into_iter', r'<&mut \[.*\] as IntoIterator>::into_iter')
def _(i, st, a, c): return list_iter(_elem_refs(i, st, a[0]))


@model(r'<.* as Iterator>::enumerate')
def _(i, st, a, c):
    return list_iter([Agg('tuple', (k, x)) for k, x in enumerate(_as_list(i, st, a[0]))])


@model(r'<.* as Iterator>::zip')
def _(i, st, a, c):
    return list_iter([Agg('tuple', (x, y)) for x, y in zip(_as_list(i, st, a[0]), _as_list(i, st, a[1]))])


@model(r'<.* as Iterator>::take')
def _(i, st, a, c):
    n = a[1]
    if is_z3(n):
        raise Unsupported('take with symbolic count')
    v = a[0]
    if not (isinstance(v, Agg) and v.tag == 'ListIter') and not isinstance(v, Ref):
        return Agg('TakeIter', (v, n))        # adaptor over a crate-local iterator: evaluated lazily through its real `next`
    return list_iter(_as_list(i, st, a[0])[:n])


@model(r'<.* as Iterator>::flatten')
def _(i, st, a, c):
    out = []
    for x in _as_list(i, st, a[0]):
        if isinstance(x, Var) and x.name == 'None':
            continue
        if isinstance(x, Var) and x.name == 'Some':
            out.append(x.items[0])
        elif isinstance(x, Agg) and x.tag in ('Vec', 'array', 'ListIter'):
            out.extend(x.items)
        else:
            raise Unsupported('flatten of %r' % (x,))
    return list_iter(out)


def _map_items(i, st, items, clo, keep):
    """apply closure to each item in order, threading (and forking) the state; keep(value)->list of outputs"""
    work = [(st, [])]
    for it in items:
        nxt = []
        for s, acc in work:
            for s2, v in i.call_closure(s, clo, [it]):
                nxt.append((s2, acc + keep(v)))
        work = nxt
    return work


@model(r'<.* as Iterator>::map')
def _(i, st, a, c):
    res = _map_items(i, st, _as_list(i, st, a[0]), a[1], lambda v: [v])
    return [(s, list_iter(acc)) for s, acc in res]


def _keep_some(v):
    if isinstance(v, Var) and v.name == 'None':
        return []
    if isinstance(v, Var) and v.name == 'Some':
        return [v.items[0]]
    raise Unsupported('filter_map closure returned %r' % (v,))


@model(r'Box::new')
def _(i, st, a, c): return a[0]


def _pred_items(i, st, items, clo, mode):
    """filter / take_while / skip_while with a possibly symbolic predicate: forks on every undecided element"""
    work = [(st, [], 'open')]
    for it in items:
        nxt = []
        for s, acc, phase in work:
            if mode == 'take_while' and phase == 'closed':
                nxt.append((s, acc, phase))
                continue
            if mode == 'skip_while' and phase == 'closed':
                nxt.append((s, acc + [it], phase))
                continue
            hid = next(_tmp_ids)
            s.heap[hid] = it
            for s2, keep in i.call_closure(s, clo, [Ref(('H', hid))]):
                branches = []
                if is_z3(keep):
                    for val in (True, False):
                        cond = keep if val else z3.Not(keep)
                        if i.feasible(s2, cond):
                            s3 = s2.fork()
                            s3.pc.append(cond)
                            branches.append((s3, val))
                else:
                    branches.append((s2, bool(keep)))
                for s3, val in branches:
                    if mode == 'filter':
                        nxt.append((s3, acc + ([it] if val else []), phase))
                    elif mode == 'take_while':
                        nxt.append((s3, acc + [it], phase) if val else (s3, acc, 'closed'))
                    else:
                        nxt.append((s3, acc, phase) if val else (s3, acc + [it], 'closed'))
        work = nxt
    return [(s, list_iter(acc)) for s, acc, _ in work]


@model(r'<.* as Iterator>::filter$')
def _(i, st, a, c): return _pred_items(i, st, _as_list(i, st, a[0]), a[1], 'filter')


@model(r'<.* as Iterator>::take_while')
def _(i, st, a, c): return _pred_items(i, st, _as_list(i, st, a[0]), a[1], 'take_while')


@model(r'<.* as Iterator>::skip_while')
def _(i, st, a, c): return _pred_items(i, st, _as_list(i, st, a[0]), a[1], 'skip_while')


@model(r'<.* as Iterator>::skip$')
def _(i, st, a, c):
    if is_z3(a[1]):
        raise Unsupported('skip by a symbolic count')
    return list_iter(_as_list(i, st, a[0])[a[1]:])


@model(r'<.* as Iterator>::filter_map')
def _(i, st, a, c):
    res = _map_items(i, st, _as_list(i, st, a[0]), a[1], _keep_some)
    return [(s, list_iter(acc)) for s, acc in res]


@model(r'<.* as Iterator>::for_each')
def _(i, st, a, c):
    res = _map_items(i, st, _as_list(i, st, a[0]), a[1], lambda v: [])
    return [(s, UNIT) for s, acc in res]


import itertools as _it
_tmp_ids = _it.count(7000000)


def _concrete_eq(x, y):
    """structural equality of two values without symbolic leaves; Unsupported otherwise"""
    if isinstance(x, (Agg, Var)) and isinstance(y, (Agg, Var)):
        if getattr(x, 'tag', getattr(x, 'name', None)) != getattr(y, 'tag', getattr(y, 'name', None)) or len(x.items) != len(y.items):
            return False
        return all(_concrete_eq(p, q) for p, q in zip(x.items, y.items))
    if is_z3(x) or is_z3(y):
        raise Unsupported('comparison of symbolic keys in dedup / retain')
    return x == y


@model(r'Vec::dedup_by_key')
def _(i, st, a, c):
    # keys through the closure (receives &mut T), consecutive equal keys removed; keys must be concrete
    v = i.deref_read(st, a[0])
    items = list(v.items)
    work = [(st, [])]
    for k, it in enumerate(items):
        nxt = []
        for s, acc in work:
            hid = next(_tmp_ids)
            s.heap[hid] = it
            for s2, key in i.call_closure(s, a[1], [Ref(('H', hid))]):
                nxt.append((s2, acc + [key]))
        work = nxt
    out = []
    for s, keys in work:
        kept = [items[k] for k in range(len(items)) if k == 0 or not _concrete_eq(keys[k], keys[k - 1])]
        # std semantics: compare with the last KEPT element's key
        kept, last = [], None
        for k in range(len(items)):
            if last is None or not _concrete_eq(keys[k], last):
                kept.append(items[k])
                last = keys[k]
        i.deref_write(s, a[0], Agg(v.tag, kept))
        out.append((s, UNIT))
    return out


@model(r'Vec::dedup$')
def _(i, st, a, c):
    v = i.deref_read(st, a[0])
    kept = []
    for it in v.items:
        if not kept or not _concrete_eq(it, kept[-1]):
            kept.append(it)
    i.deref_write(st, a[0], Agg(v.tag, kept))
    return UNIT


@model(r'Vec::retain')
def _(i, st, a, c):
    v = i.deref_read(st, a[0])
    items = list(v.items)
    work = [(st, [])]
    for it in items:
        nxt = []
        for s, acc in work:
            hid = next(_tmp_ids)
            s.heap[hid] = it
            for s2, keep in i.call_closure(s, a[1], [Ref(('H', hid))]):
                if is_z3(keep):
                    raise Unsupported('Vec::retain with a symbolic predicate')
                nxt.append((s2, acc + ([it] if keep else [])))
        work = nxt
    out = []
    for s, kept in work:
        i.deref_write(s, a[0], Agg(v.tag, kept))
        out.append((s, UNIT))
    return out


@model(r'<.* as Iterator>::fold')
def _(i, st, a, c):
    items = _as_list(i, st, a[0])
    work = [(st, a[1])]
    for it in items:
        nxt = []
        for s, acc in work:
            for s2, v in i.call_closure(s, a[2], [acc, it]):
                nxt.append((s2, v))
        work = nxt
    return work


@model(r'<.* as Iterator>::(product|sum)')
def _(i, st, a, c):
    items = _as_list(i, st, a[0])
    items = [i.deref_read(st, x) if isinstance(x, Ref) else x for x in items]
    op = '*' if c.rstrip('>').split('::')[-1].startswith('product') or '::product' in c else '+'
    if not items:
        raise Unsupported('product / sum of an empty iterator (type of the neutral element unknown)')
    r = items[0]
    for x in items[1:]:
        r = arith(op, r, x)
    return r


@model(r'<[ui](8|16|32|64|128|size) as TryInto>::try_into', r'<[ui](8|16|32|64|128|size) as TryFrom>::try_from')
def _(i, st, a, c):
    m = re.search(r'as Try(?:Into|From)<([ui])(8|16|32|64|128|size)>', c)
    if not m:
        raise Unsupported('target of ' + c)
    sg, bits = m.group(1), 64 if m.group(2) == 'size' else int(m.group(2))
    lo, hi = (0, (1 << bits) - 1) if sg == 'u' else (-(1 << (bits - 1)), (1 << (bits - 1)) - 1)
    v = a[0]
    if not is_z3(v):
        return Var('Ok', (v,), 'Result') if lo <= v <= hi else Var('Err', (Opaque('TryFromIntError'),), 'Result')
    out = []
    for cond, res in ((z3.And(v >= lo, v <= hi), Var('Ok', (v,), 'Result')), (z3.Or(v < lo, v > hi), Var('Err', (Opaque('TryFromIntError'),), 'Result'))):
        if i.feasible(st, cond):
            s2 = st.fork()
            s2.pc.append(cond)
            out.append((s2, res))
    return out


@model(r'<.* as Iterator>::collect')
def _(i, st, a, c): return Agg('Vec', _as_list(i, st, a[0]))


@model(r'<.* as IntoIterator>::into_iter')
def _(i, st, a, c):
    v = a[0]
    if isinstance(v, Agg) and v.tag in ('ListIter', 'TakeIter'):
        return v
    # `impl<I: Iterator> IntoIterator for I` is the identity: a crate-local struct with its own `Iterator::next`
    if isinstance(v, Agg) and any(tr == 'Iterator' for _n, tr, _m in i.by_key.get((v.tag, 'next'), [])):
        return v
    raise Unsupported('into_iter of %r' % (getattr(v, 'tag', v),))


@model(r'<.* as Iterator>::next')
def list_next(i, st, a, c):
    t0 = i.deref_read(st, a[0]) if isinstance(a[0], Ref) else a[0]
    if isinstance(t0, Agg) and t0.tag == 'TakeIter':
        inner, n = t0.items
        if n == 0:
            return Var('None', (), 'Option')
        i.deref_write(st, a[0], Agg('TakeIter', (inner, n - 1)))
        return i.call(st, "<SimpleCycle2Iterator<'_> as Iterator>::next", [Ref(a[0].base, a[0].path + (0,))], {})
    items = _as_list(i, st, a[0])
    if not items:
        return Var('None', (), 'Option')
    i.deref_write(st, a[0], list_iter(items[1:]))
    return Var('Some', (items[0],), 'Option')


@model(r'<Vec as Extend>::extend', r'<Vec as Extend<.*>>::extend', r'Vec::extend')
def _(i, st, a, c):
    v = i.deref_read(st, a[0])
    i.deref_write(st, a[0], Agg(v.tag, tuple(v.items) + tuple(_as_list(i, st, a[1]))))
    return UNIT


@model(r'<.*Scalar as PartialOrd>::partial_cmp')
def _(i, st, a, c):
    x = i.deref_read(st, a[0]); y = i.deref_read(st, a[1])
    return fork_ordering(i, st, x, y, wrap_some=True)


@model(r'DVec3::project_onto_normalized')
def _(i, st, a, c):
    # glam: rhs * self.dot(rhs)   (documented: rhs must be normalised)
    v, r = a
    return vscale('*', r, dot(v, r))


@model(r'DVec3::reject_from')
def _(i, st, a, c):
    v, r = a
    k = div_real(st, dot(v, r), dot(r, r), 'reject_from zero vector')
    return vmap2('-', v, vscale('*', r, k))


@model(r'DVec3::normalize_or_zero', r'DVec3::try_normalize')
def _(i, st, a, c):
    raise Unsupported('normalize_or_zero / try_normalize are not modelled')


@model(r'DVec3::recip')
def _(i, st, a, c): return Agg('DVec3', [div_real(st, Fraction(1), x) for x in a[0].items])


@model(r'DVec3::length_recip')
def _(i, st, a, c): return div_real(st, Fraction(1), sqrt_real(st, dot(a[0], a[0])))


@model(r'DVec3::mul_add')
def _(i, st, a, c): return vmap2('+', vmap2('*', a[0], a[1]), a[2])


@model(r'core::f64::<impl f64>::mul_add', r'std::f64::<impl f64>::mul_add')
def _(i, st, a, c): return arith('+', arith('*', a[0], a[1]), a[2])


@model(r'core::f64::<impl f64>::powi', r'std::f64::<impl f64>::powi')
def _(i, st, a, c):
    n = a[1]
    if is_z3(n) or n < 0:
        raise Unsupported('powi with symbolic/negative exponent')
    r = Fraction(1)
    for _k in range(n):
        r = arith('*', r, a[0])
    return r


@model(r'AABB::lower')
def _(i, st, a, c): return i.deref_read(st, a[0]).items[0]


@model(r'AABB::upper')
def _(i, st, a, c): return i.deref_read(st, a[0]).items[1]


@model(r'AABB::from_corners')
def _(i, st, a, c): return Agg('AABB', (a[0], a[1]))


@model(r'AABB::from_point')
def _(i, st, a, c): return Agg('AABB', (a[0], a[0]))


def _fork_bool(i, st, b):
    """[(state, concrete bool)] for a possibly symbolic boolean"""
    if isinstance(b, bool):
        return [(st, b)]
    out = []
    for val, cond in ((True, b), (False, z3.Not(b))):
        if i.feasible(st, cond):
            s2 = st.fork()
            s2.pc.append(cond)
            out.append((s2, val))
    return out


@model(r'Option::filter')
def _(i, st, a, c):
    opt, clo = a
    if opt.name == 'None':
        return opt
    hid = ('filter', id(opt))
    from .interp import _heap_ids
    h = next(_heap_ids)
    st.heap[h] = opt.items[0]
    out = []
    for s2, r in i.call_closure(st, clo, [Ref(('H', h))]):
        for s3, bv in _fork_bool(i, s2, r):
            out.append((s3, opt if bv else Var('None', (), 'Option')))
    return out


def _any_all(i, st, items, clo, want):
    """short-circuit any (want=True) / all (want=False is the stopping value)"""
    work = [(st, 0)]
    out = []
    while work:
        s, k = work.pop()
        if k == len(items):
            out.append((s, not want))
            continue
        for s2, r in i.call_closure(s, clo, [items[k]]):
            for s3, bv in _fork_bool(i, s2, r):
                if bv == want:
                    out.append((s3, want))
                else:
                    work.append((s3, k + 1))
    return out


@model(r'<.* as Iterator>::any')
def _(i, st, a, c):
    items = _as_list(i, st, a[0])
    if isinstance(a[0], Ref):
        i.deref_write(st, a[0], list_iter([]))
    return _any_all(i, st, items, a[1], True)


@model(r'<.* as Iterator>::all')
def _(i, st, a, c):
    items = _as_list(i, st, a[0])
    if isinstance(a[0], Ref):
        i.deref_write(st, a[0], list_iter([]))
    return _any_all(i, st, items, a[1], False)


# ----------------------------------------------------------------------------- vec![a, b, ..] (this nightly's lowering)
# _b = Box::<[T; N]>::new_uninit();  (*(_b.0.0 as *const MaybeUninit<[T;N]>)).1.0.0 = [..];  box_assume_init_into_vec_unsafe(_b)

@model(r'Box::new_uninit')
def _(i, st, a, c):
    from .interp import _heap_ids
    h = next(_heap_ids)
    st.heap[h] = Agg('MaybeUninit', (UNIT, Agg('ManuallyDrop', (Agg('MaybeDangling', (Opaque('uninit'),)),))))
    return Agg('Box', (Agg('Unique', (Ref(('H', h)),)),))


@model(r'std::boxed::box_assume_init_into_vec_unsafe')
def _(i, st, a, c):
    r = a[0].items[0].items[0]
    v = i.deref_read(st, r).items[1].items[0].items[0]
    if not isinstance(v, Agg):
        raise Unsupported('vec! box not initialised')
    return Agg('Vec', v.items)


@model(r'<.* as Iterator>::skip_while')
def _(i, st, a, c):
    items = _as_list(i, st, a[0])
    work = [(st, 0)]
    out = []
    while work:
        s, k = work.pop()
        if k == len(items):
            out.append((s, list_iter([])))
            continue
        from .interp import _heap_ids
        h = next(_heap_ids)
        s.heap[h] = items[k]
        for s2, r in i.call_closure(s, a[1], [Ref(('H', h))]):
            for s3, bv in _fork_bool(i, s2, r):
                if bv:
                    work.append((s3, k + 1))
                else:
                    out.append((s3, list_iter(items[k:])))
    return out


@model(r'<.* as Iterator>::skip')
def _(i, st, a, c):
    n = a[1]
    if is_z3(n):
        raise Unsupported('skip with symbolic count')
    return list_iter(_as_list(i, st, a[0])[n:])


@model(r'<.* as Iterator>::filter')
def _(i, st, a, c):
    items = _as_list(i, st, a[0])
    work = [(st, 0, [])]
    out = []
    while work:
        s, k, acc = work.pop()
        if k == len(items):
            out.append((s, list_iter(acc)))
            continue
        from .interp import _heap_ids
        h = next(_heap_ids)
        s.heap[h] = items[k]
        for s2, r in i.call_closure(s, a[1], [Ref(('H', h))]):
            for s3, bv in _fork_bool(i, s2, r):
                work.append((s3, k + 1, acc + ([items[k]] if bv else [])))
    return out


def _fold_select(i, st, items, clo, keep_new_if):
    """std max_by / min_by: fold keeping `best`; compare(best, x) decides.  max_by keeps the LAST maximal element
    (replaces best when compare(best, x) != Greater); min_by keeps the FIRST minimal one (replaces when == Greater)."""
    if not items:
        return Var('None', (), 'Option')
    from .interp import _heap_ids
    work = [(st, items[0], 1)]
    out = []
    while work:
        s, best, k = work.pop()
        if k == len(items):
            out.append((s, Var('Some', (best,), 'Option')))
            continue
        h1, h2 = next(_heap_ids), next(_heap_ids)
        s.heap[h1] = best
        s.heap[h2] = items[k]
        for s2, o in i.call_closure(s, clo, [Ref(('H', h1)), Ref(('H', h2))]):
            nb = items[k] if keep_new_if(o.name) else best
            work.append((s2, nb, k + 1))
    return out


@model(r'<.* as Iterator>::max_by')
def _(i, st, a, c):
    return _fold_select(i, st, _as_list(i, st, a[0]), a[1], lambda name: name != 'Greater')


@model(r'<.* as Iterator>::min_by')
def _(i, st, a, c):
    return _fold_select(i, st, _as_list(i, st, a[0]), a[1], lambda name: name == 'Greater')


# ----------------------------------------------------------------------------- Take over a crate-local iterator
@model(r'<SimpleCycle2Iterator as Iterator>::take')
def _(i, st, a, c):
    return Agg('TakeIter', (a[0], a[1]))


@model(r'<std::iter::Take as IntoIterator>::into_iter', r'<std::iter::Take<.*> as IntoIterator>::into_iter')
def _(i, st, a, c): return a[0]


@model(r'<std::iter::Take as Iterator>::next', r'<std::iter::Take<.*> as Iterator>::next')
def _(i, st, a, c):
    r = a[0]
    t = i.deref_read(st, r)
    if isinstance(t, Agg) and t.tag == 'ListIter':
        return list_next(i, st, a, c)
    if not (isinstance(t, Agg) and t.tag == 'TakeIter'):
        raise Unsupported('Take::next on %r' % (t,))
    inner, n = t.items
    if is_z3(n):
        raise Unsupported('Take with symbolic count')
    if n == 0:
        return Var('None', (), 'Option')
    i.deref_write(st, r, Agg('TakeIter', (inner, n - 1)))
    return i.call(st, "<SimpleCycle2Iterator<'_> as Iterator>::next", [Ref(r.base, r.path + (0,))], {})


@model(r'<Vec as IndexMut<std::ops::RangeFrom<usize>>>::index_mut', r'<Vec as Index<std::ops::RangeFrom<usize>>>::index',
       r'<\[.*\] as IndexMut<std::ops::RangeFrom<usize>>>::index_mut', r'<\[.*\] as Index<std::ops::RangeFrom<usize>>>::index')
def _(i, st, a, c):
    r, rng = a
    start = rng.items[0]
    if is_z3(start):
        raise Unsupported('symbolic slice start')
    v = i.deref_read(st, r)
    off = r.win[0] if r.win is not None else 0
    n = len(v.items)
    if start > n:
        i.panics.append((tuple(st.pc), 'slice start out of range', st))
        return []
    return Ref(r.base, r.path, (off + start, n - start))


@model(r'DVec3::as_uvec3')
def _(i, st, a, c):
    out = []
    v = i.deref_read(st, a[0]) if isinstance(a[0], Ref) else a[0]
    for x in v.items:
        if is_z3(x):
            raise Unsupported('as_uvec3 of a symbolic vector')
        out.append(int(x))
    return Agg('UVec3', out)


@model(r'UVec3::new', r'IVec3::new')
def _(i, st, a, c): return Agg('UVec3', list(a))


@model(r'UVec3::as_dvec3', r'IVec3::as_dvec3')
def _(i, st, a, c):
    v = i.deref_read(st, a[0]) if isinstance(a[0], Ref) else a[0]
    return Agg('DVec3', [Fraction(x) if not is_z3(x) else z3.ToReal(x) for x in v.items])


@model(r'<i32 as Ord>::max', r'<usize as Ord>::max', r'<u32 as Ord>::max', r'std::cmp::max', r'core::cmp::max')
def _(i, st, a, c):
    x, y = a
    if not is_z3(x) and not is_z3(y):
        return max(x, y)
    return z3.If(to_z3(x) >= to_z3(y), to_z3(x), to_z3(y))


@model(r'<i32 as Ord>::min', r'<usize as Ord>::min', r'<u32 as Ord>::min', r'std::cmp::min', r'core::cmp::min')
def _(i, st, a, c):
    x, y = a
    if not is_z3(x) and not is_z3(y):
        return min(x, y)
    return z3.If(to_z3(x) <= to_z3(y), to_z3(x), to_z3(y))


@model(r'<.* as Iterator>::chain')
def _(i, st, a, c):
    return list_iter(_as_list(i, st, a[0]) + _as_list(i, st, a[1]))


@model(r'<Vec as Index<std::ops::Range<usize>>>::index', r'<Vec as IndexMut<std::ops::Range<usize>>>::index_mut',
       r'<\[.*\] as Index<std::ops::Range<usize>>>::index', r'<\[.*\] as IndexMut<std::ops::Range<usize>>>::index_mut')
def _(i, st, a, c):
    r, rng = a
    lo, hi = rng.items[0], rng.items[1]
    if is_z3(lo) or is_z3(hi):
        raise Unsupported('symbolic slice range')
    v = i.deref_read(st, r)
    off = r.win[0] if r.win is not None else 0
    n = len(v.items)
    if lo > hi or hi > n:
        i.panics.append((tuple(st.pc), 'slice range %d..%d out of range for length %d' % (lo, hi, n), st))
        return []
    return Ref(r.base, r.path, (off + lo, hi - lo))


@model(r'core::slice::<impl \[.*\]>::contains')
def _(i, st, a, c):
    v = i.deref_read(st, a[0])
    x = i.deref_read(st, a[1])
    res = False
    for it in v.items:
        res = b_or(res, cmp_('==', it, x))
    return res


@model(r'Option::unwrap_unchecked')
def _(i, st, a, c):
    v = a[0]
    if isinstance(v, Var) and v.name == 'Some':
        return v.items[0]
    if isinstance(v, Var) and v.name == 'None':
        i.panics.append((tuple(st.pc), 'UNDEFINED BEHAVIOUR: unwrap_unchecked on None', st))
        return []
    raise Unsupported('unwrap_unchecked on %r' % (v,))


# ---------------------------------------------------------------------------- TypeId (ConvexCellDecomposition::new dispatches on the marker type)

@model(r'TypeId::of')
def _(i, st, a, c):
    m = re.search(r'TypeId::of::<(.*)>$', c.strip())
    if not m:
        raise Unsupported('TypeId::of without a type argument: ' + c)
    ty = m.group(1).strip()
    ty = getattr(i, 'cur_generics', {}).get(ty, ty)
    if re.fullmatch(r'[A-Z]\w?', ty):
        raise Unsupported('TypeId::of::<%s>: type parameter not bound by the harness' % ty)
    return Agg('TypeId', (ty.split('::')[-1],))


@model(r'<TypeId as PartialEq>::eq', r'<TypeId as PartialEq<TypeId>>::eq')
def _(i, st, a, c):
    x, y = (i.deref_read(st, v) if isinstance(v, Ref) else v for v in a)
    return x.items[0] == y.items[0]


# ---------------------------------------------------------------------------- direct calls of closure values (`f(a, b)` on a local closure)

@model(r'<\{closure@.*\} as Fn(Mut|Once)?>::call(_mut|_once)?', r'<&\{closure@.*\} as Fn(Mut|Once)?>::call(_mut|_once)?')
def _(i, st, a, c):
    args = a[1]
    if not (isinstance(args, Agg) and args.tag == 'tuple'):
        raise Unsupported('closure call: arguments are not a tuple: %r' % (args,))
    return i.call_closure(st, a[0], list(args.items), getattr(i, 'cur_generics', None))


# ---------------------------------------------------------------------------- derived PartialEq on fieldless enum values (Sign, Ordering, Dimensionality)

@model(r'<(?:num_bigint::)?Sign as PartialEq>::eq', r'<(?:std::cmp::|core::cmp::)?Ordering as PartialEq>::eq', r'<Dimensionality as PartialEq>::eq')
def _(i, st, a, c):
    x, y = (i.deref_read(st, v) if isinstance(v, Ref) else v for v in a)
    if isinstance(x, Var) and isinstance(y, Var) and not x.items and not y.items:
        return x.name == y.name
    raise Unsupported('enum PartialEq on %r, %r' % (x, y))
