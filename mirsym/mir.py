"""Parser for rustc's `-Zunpretty=mir` text dump (unoptimised MIR).

Produces Function objects: header (name, params, return type), locals with
their types, basic blocks with parsed statements and terminator.  The parser
is deliberately strict: anything it does not understand is kept as a
('raw', text) node, and the interpreter aborts (inconclusive) when it meets
one on an executed path.
"""
import re
from dataclasses import dataclass, field


class MirParseError(Exception):
    pass


# ----------------------------------------------------------------------------
# low level helpers

OPEN = {'(': ')', '[': ']', '{': '}', '<': '>'}
CLOSE = {v: k for k, v in OPEN.items()}


def split_top(s, sep=','):
    """Split on `sep` at nesting depth 0 (parens, brackets, braces, angle
    brackets; string literals respected)."""
    out, depth, cur, i, n = [], 0, [], 0, len(s)
    instr = False
    while i < n:
        c = s[i]
        if instr:
            cur.append(c)
            if c == '\\':
                cur.append(s[i + 1]); i += 1
            elif c == '"':
                instr = False
        elif c == '"':
            instr = True; cur.append(c)
        elif c in '([{':
            depth += 1; cur.append(c)
        elif c in ')]}':
            depth -= 1; cur.append(c)
        elif c == '<':
            # angle bracket only if it looks like a generic opener
            depth += 1; cur.append(c)
        elif c == '>':
            if i > 0 and s[i - 1] in '-=':   # `->`, `=>`
                cur.append(c)
            else:
                depth -= 1; cur.append(c)
        elif c == sep and depth == 0:
            out.append(''.join(cur).strip()); cur = []
        else:
            cur.append(c)
        i += 1
    last = ''.join(cur).strip()
    if last:
        out.append(last)
    return out


def match_close(s, i):
    """s[i] is an opener; return index of its matching closer."""
    op = s[i]; cl = OPEN[op]
    depth = 0; n = len(s); instr = False
    while i < n:
        c = s[i]
        if instr:
            if c == '\\': i += 1
            elif c == '"': instr = False
        elif c == '"': instr = True
        elif c in '([{': depth += 1
        elif c in ')]}':
            depth -= 1
            if depth == 0:
                return i
        i += 1
    raise MirParseError('unbalanced: ' + s)


# ----------------------------------------------------------------------------
# places and operands

def parse_place(s):
    """Return (place, rest).  place = ('local', n) |
    ('deref', p) | ('field', p, idx, ty) | ('downcast', p, variant) |
    ('index', p, local_n) | ('cindex', p, i, from_end) | ('subslice', p, a, b, from_end)"""
    s = s.lstrip()
    if s.startswith('_'):
        m = re.match(r'_(\d+)', s)
        p = ('local', int(m.group(1))); rest = s[m.end():]
    elif s.startswith('('):
        j = match_close(s, 0)
        inner = s[1:j]; rest = s[j + 1:]
        p = parse_place_inner(inner)
    else:
        raise MirParseError('place? ' + s)
    # postfix index projections
    while rest.startswith('['):
        j = match_close(rest, 0)
        idx = rest[1:j].strip(); rest = rest[j + 1:]
        m = re.fullmatch(r'_(\d+)', idx)
        if m:
            p = ('index', p, int(m.group(1)))
            continue
        m = re.fullmatch(r'(-?\d+) of (\d+)', idx)
        if m:
            i = int(m.group(1))
            p = ('cindex', p, abs(i), i < 0, int(m.group(2)))
            continue
        m = re.fullmatch(r'(\d+):(-?\d*)', idx)
        if m:
            p = ('subslice', p, int(m.group(1)), m.group(2))
            continue
        raise MirParseError('index? ' + idx)
    return p, rest


def parse_place_inner(inner):
    inner = inner.strip()
    if inner.startswith('*'):
        p, rest = parse_place(inner[1:])
        if rest.strip():
            raise MirParseError('deref rest: ' + inner)
        return ('deref', p)
    p, rest = parse_place(inner)
    rest = rest.lstrip()
    if rest.startswith('.'):
        m = re.match(r'\.(\d+)\s*:\s*(.*)$', rest, re.S)
        if not m:
            raise MirParseError('field? ' + inner)
        return ('field', p, int(m.group(1)), m.group(2).strip())
    if rest.startswith('as '):
        return ('downcast', p, rest[3:].strip())
    if not rest:
        return p
    raise MirParseError('place inner? ' + inner)


def parse_operand(s):
    s = s.strip()
    if s.startswith('copy '):
        p, rest = parse_place(s[5:])
        if rest.strip():
            raise MirParseError('operand rest: ' + s)
        return ('copy', p)
    if s.startswith('move '):
        p, rest = parse_place(s[5:])
        if rest.strip():
            raise MirParseError('operand rest: ' + s)
        return ('move', p)
    if s.startswith('const '):
        return ('const', s[6:].strip())
    raise MirParseError('operand? ' + s)


BINOPS = {'Add', 'Sub', 'Mul', 'Div', 'Rem', 'Lt', 'Le', 'Gt', 'Ge', 'Eq', 'Ne',
          'BitAnd', 'BitOr', 'BitXor', 'Shl', 'Shr', 'AddWithOverflow',
          'SubWithOverflow', 'MulWithOverflow', 'AddUnchecked', 'SubUnchecked',
          'MulUnchecked', 'Offset', 'Cmp', 'ShlUnchecked', 'ShrUnchecked'}
UNOPS = {'Not', 'Neg', 'PtrMetadata'}


def parse_rvalue(s):
    s = s.strip()
    # use / const
    if s.startswith(('copy ', 'move ', 'const ')):
        # may be a cast:  `copy _3 as f64 (IntToFloat)`
        m = re.match(r'^((?:copy|move) .*?|const .*?) as (.*) \((\w+(?:\(.*\))?)\)$', s)
        if m:
            try:
                return ('cast', parse_operand(m.group(1)), m.group(2).strip(), m.group(3))
            except MirParseError:
                pass
        return ('use', parse_operand(s))
    if s.startswith('no_retag '):
        return parse_rvalue(s[9:])
    m = re.match(r'^&(mut |raw const \(fake\) |raw mut \(fake\) |raw const |raw mut |fake shallow |fake )?(.*)$', s)
    if m and not s.startswith('&&'):
        p, rest = parse_place(m.group(2))
        if not rest.strip():
            return ('ref', p, (m.group(1) or '').strip())
    m = re.match(r'^(\w+)\((.*)\)$', s, re.S)
    if m and m.group(1) in BINOPS:
        a, b = split_top(m.group(2))
        return ('binop', m.group(1), parse_operand(a), parse_operand(b))
    if m and m.group(1) in UNOPS:
        return ('unop', m.group(1), parse_operand(m.group(2)))
    if m and m.group(1) == 'discriminant':
        p, rest = parse_place(m.group(2))
        return ('discriminant', p)
    if m and m.group(1) == 'Len':
        p, rest = parse_place(m.group(2))
        return ('len', p)
    # array / repeat
    if s.startswith('['):
        j = match_close(s, 0)
        if j == len(s) - 1:
            inner = s[1:j]
            parts = split_top(inner, ';')
            if len(parts) == 2:
                return ('repeat', parse_operand(parts[0]), parts[1].strip())
            return ('aggregate', 'array', None, [parse_operand(x) for x in split_top(inner)])
    # tuple
    if s.startswith('('):
        j = match_close(s, 0)
        if j == len(s) - 1:
            inner = s[1:j]
            items = split_top(inner)
            return ('aggregate', 'tuple', None, [parse_operand(x) for x in items])
    # closure aggregate
    if s.startswith('{closure@') or s.startswith('{coroutine@'):
        j = match_close(s, 0)
        cname = s[:j + 1]
        rest = s[j + 1:].strip()
        ops = []
        if rest.startswith('{'):
            k = match_close(rest, 0)
            for item in split_top(rest[1:k]):
                if not item:
                    continue
                nm, val = item.split(':', 1)
                ops.append(parse_operand(val))
        return ('aggregate', 'closure', cname, ops)
    # struct aggregate  Path { f: op, ... }   /  enum variant  Path::Variant(op, ..) / unit variant Path::Variant
    m = re.match(r'^([\w:<>\[\]&\', ;()\-*=]+?)\s*\{(.*)\}$', s, re.S)
    if m and '::' in m.group(1) or (m and re.match(r'^\w+$', m.group(1).strip())):
        path = m.group(1).strip()
        ops = []
        names = []
        for item in split_top(m.group(2)):
            if not item:
                continue
            nm, val = item.split(':', 1)
            names.append(nm.strip())
            ops.append(parse_operand(val))
        return ('aggregate', 'adt', path, ops, names)
    if s.endswith(')'):
        # tuple-like ADT constructor: the argument list is the parenthesis group that closes at the end
        depth = 0
        k = None
        for i in range(len(s) - 1, -1, -1):
            c = s[i]
            if c == ')':
                depth += 1
            elif c == '(':
                depth -= 1
                if depth == 0:
                    k = i
                    break
        if k is not None and k > 0 and re.match(r'^[\w:<>\[\]&\', ;()\-*=]+$', s[:k]):
            try:
                inner = s[k + 1:-1]
                ops = [parse_operand(x) for x in split_top(inner)] if inner.strip() else []
                return ('aggregate', 'adt', s[:k].strip(), ops, None)
            except MirParseError:
                pass
    if re.match(r'^[\w:<>\[\]&\', ;()\-*=]+$', s) and '::' in s:
        return ('aggregate', 'adt', s, [], None)
    return ('raw', s)


# ----------------------------------------------------------------------------

@dataclass
class Block:
    name: str
    cleanup: bool
    stmts: list
    term: tuple


@dataclass
class Function:
    name: str
    params: list            # [(local, type)]
    ret_ty: str
    local_ty: dict          # n -> type string
    blocks: dict
    debug: dict = field(default_factory=dict)   # debug name -> place text
    src_span: str = ''

    @property
    def nblocks(self):
        return len([b for b in self.blocks.values() if not b.cleanup])


def parse_terminator(t):
    t = t.strip().rstrip(';')
    m = re.match(r'^goto -> (bb\d+)$', t)
    if m:
        return ('goto', m.group(1))
    if t == 'return':
        return ('return',)
    if t == 'unreachable':
        return ('unreachable',)
    if t.startswith('resume') or t.startswith('unwind '):
        return ('resume',)
    m = re.match(r'^switchInt\((.*)\) -> \[(.*)\]$', t, re.S)
    if m:
        op = parse_operand(m.group(1))
        targets = []
        other = None
        for it in split_top(m.group(2)):
            k, v = it.split(':')
            k = k.strip(); v = v.strip()
            if k == 'otherwise':
                other = v
            else:
                targets.append((int(k), v))
        return ('switch', op, targets, other)
    m = re.match(r'^assert\((.*)\) -> \[success: (bb\d+), unwind.*\]$', t, re.S)
    if m:
        args = split_top(m.group(1))
        cond = args[0].strip()
        neg = False
        if cond.startswith('!'):
            neg = True; cond = cond[1:]
        return ('assert', parse_operand(cond), neg, args[1] if len(args) > 1 else '', m.group(2))
    m = re.match(r'^drop\((.*)\) -> \[return: (bb\d+), unwind.*\]$', t, re.S)
    if m:
        p, _ = parse_place(m.group(1))
        return ('drop', p, m.group(2))
    m = re.match(r'^falseEdge -> \[real: (bb\d+), imaginary: bb\d+\]$', t)
    if m:
        return ('goto', m.group(1))
    m = re.match(r'^falseUnwind -> \[real: (bb\d+), unwind.*\]$', t)
    if m:
        return ('goto', m.group(1))
    # call:   DEST = CALLEE(ARGS) -> [return: bbN, unwind ...]   |  DEST = CALLEE(ARGS) -> unwind ...
    m = re.match(r'^(.*?) = (.*)\) -> (\[return: (bb\d+), unwind[^\]]*\]|unwind .*|bb\d+)$', t, re.S)
    if m:
        dest, _ = parse_place(m.group(1))
        callee_args = m.group(2) + ')'
        # find the '(' that opens the argument list: the one matching the final ')'
        depth = 0
        k = None
        for i in range(len(callee_args) - 1, -1, -1):
            c = callee_args[i]
            if c == ')': depth += 1
            elif c == '(':
                depth -= 1
                if depth == 0:
                    k = i; break
        callee = callee_args[:k].strip()
        argtxt = callee_args[k + 1:-1]
        args = [parse_operand(a) for a in split_top(argtxt)] if argtxt.strip() else []
        return ('call', dest, callee, args, m.group(4))
    return ('raw', t)


FN_RE = re.compile(r'^fn (.+?)\((.*)\) -> (.+?) \{$')


SIMPLE_CONSTS = {}


def parse_mir(text):
    """Return dict name -> Function (last definition wins for duplicates)."""
    funcs = {}
    lines = text.split('\n')
    i, n = 0, len(lines)
    while i < n:
        line = lines[i]
        m = FN_RE.match(line) if line.startswith('fn ') else None
        if not m and line.startswith('const ') and line.endswith('= {') and 'promoted[' in line:
            pm = re.match(r'^const (.+?::promoted\[\d+\]): (.+?) = \{$', line)
            if pm:
                m = FN_RE.match('fn %s() -> %s {' % (pm.group(1), pm.group(2)))
        if not m and line.startswith('const ') and line.endswith(';') and ' = const ' in line and 'promoted[' not in line:
            # one-line crate constant: `const NAME: TY = const VALUE;`
            cm = re.match(r'^const (.+): ([^:=]+?) = const (.+);$', line)
            if cm:
                SIMPLE_CONSTS[cm.group(1).strip()] = (cm.group(2).strip(), cm.group(3).strip())
        if not m and line.startswith('const ') and line.endswith('= {') and 'promoted[' not in line:
            # crate constant with a body: parsed like a nullary function named `const <NAME>`
            pm = re.match(r'^const (.+): ([^:]+?) = \{$', line)
            if pm:
                m = FN_RE.match('fn const %s() -> %s {' % (pm.group(1), pm.group(2)))
        if not m:
            i += 1
            continue
        name = m.group(1)
        params = []
        for ptxt in split_top(m.group(2)):
            pm = re.match(r'^_(\d+): (.*)$', ptxt, re.S)
            if pm:
                params.append((int(pm.group(1)), pm.group(2).strip()))
        ret_ty = m.group(3)
        local_ty = {k: v for k, v in params}
        blocks = {}
        debug = {}
        i += 1
        cur = None
        while i < n and lines[i] != '}':
            l = lines[i].strip()
            lm = re.match(r'^let (?:mut )?_(\d+): (.*);$', l)
            if lm:
                local_ty[int(lm.group(1))] = lm.group(2)
            dm = re.match(r'^debug (\w+) => (.*);$', l)
            if dm:
                debug.setdefault(dm.group(1), dm.group(2))
            bm = re.match(r'^(bb\d+)( \(cleanup\))?: \{$', l)
            if bm:
                body = []
                i += 1
                # statements may span several lines (rare); join until ';' at depth 0 or terminator end
                buf = ''
                while lines[i].strip() != '}':
                    buf = (buf + ' ' + lines[i].strip()).strip()
                    if buf.endswith(';') or lines[i + 1].strip() == '}':
                        body.append(buf); buf = ''
                    i += 1
                stmts = []
                for st in body[:-1]:
                    stmts.append(parse_statement(st))
                term = parse_terminator(body[-1]) if body else ('raw', '')
                blocks[bm.group(1)] = Block(bm.group(1), bool(bm.group(2)), stmts, term)
            i += 1
        funcs[name] = Function(name, params, ret_ty, local_ty, blocks, debug)
        i += 1
    return funcs


def parse_statement(st):
    st = st.strip().rstrip(';')
    if st.startswith(('StorageLive', 'StorageDead', 'FakeRead', 'nop', 'PlaceMention',
                      'AscribeUserType', 'Retag', 'Coverage', 'ConstEvalCounter',
                      'BackwardIncompatibleDropHint')):
        return ('nop',)
    if st.startswith('Deinit('):
        return ('nop',)
    m = re.match(r'^discriminant\((.*)\) = (\d+)$', st)
    if m:
        p, _ = parse_place(m.group(1))
        return ('setdisc', p, int(m.group(2)))
    # assignment: PLACE = RVALUE ; need to split at first top-level ' = '
    depth = 0
    for k, c in enumerate(st):
        if c in '([{': depth += 1
        elif c in ')]}': depth -= 1
        elif c == '=' and depth == 0 and st[k - 1] == ' ' and st[k + 1] == ' ':
            lhs = st[:k].strip(); rhs = st[k + 1:].strip()
            try:
                p, rest = parse_place(lhs)
                if rest.strip():
                    return ('raw', st)
                return ('assign', p, parse_rvalue(rhs))
            except MirParseError as e:
                return ('raw', st)
    return ('raw', st)
