"""Shared machinery of the checks: MIR dump management, obligation runner with
solver cross-checks, native replay bridge, evidence writer and exit codes.

Exit codes: 0 held within bounds / 1 VIOLATION (native replay reproduced) /
2 solver counterexample that did not reproduce natively (encoding suspect) /
3 inconclusive (timeout, unknown, unsupported callee, solver disagreement).
"""
import hashlib
import json
import os
import re
import subprocess
import sys
import time
from fractions import Fraction

import z3

from . import mir as M
from . import interp as I
from . import models
from . import ratfun

VERIF = os.path.dirname(os.path.dirname(os.path.abspath(__file__)))
REPO = os.environ.get('VERIF_REPO', '/repo')
CACHE = os.environ.get('VERIF_CACHE') or os.path.join(VERIF, '.cache')
ENV = dict(os.environ, CARGO_NET_OFFLINE='true')


def log(*a):
    print(*a, flush=True)


# ----------------------------------------------------------------------------- source hash / MIR dump

def src_hash():
    h = hashlib.sha256()
    for root, dirs, files in os.walk(os.path.join(REPO, 'src')):
        dirs.sort()
        for f in sorted(files):
            p = os.path.join(root, f)
            h.update(p.encode())
            h.update(open(p, 'rb').read())
    for f in ('Cargo.toml', 'Cargo.lock'):
        p = os.path.join(REPO, f)
        if os.path.exists(p):
            h.update(open(p, 'rb').read())
    return h.hexdigest()[:16]


def mir_dump(backend='ibig'):
    """Dump the unoptimised MIR of /repo's *current working tree* for one big-integer backend.
    Cached by a hash of the sources so that several properties share one dump; a changed tree
    always produces a fresh dump."""
    os.makedirs(CACHE, exist_ok=True)
    key = src_hash()
    out = os.path.join(CACHE, 'mir-%s-%s.mir' % (backend, key))
    if os.path.exists(out) and os.path.getsize(out) > 1000:
        return out, 0.0, True
    # drop dumps of older trees
    for f in os.listdir(CACHE):
        if f.startswith('mir-%s-' % backend) and f.endswith('.mir'):
            os.remove(os.path.join(CACHE, f))
    t = time.time()
    tgt = os.path.join(CACHE, 'target-mir-%s' % backend)
    os.utime(os.path.join(REPO, 'src', 'lib.rs'))
    cmd = ['cargo', '+nightly', 'rustc', '--offline', '--lib', '--no-default-features', '--features', backend,
           '--target-dir', tgt, '--', '-Zunpretty=mir', '-C', 'debug-assertions=off', '-C', 'overflow-checks=on']
    p = subprocess.run(cmd, cwd=REPO, env=ENV, capture_output=True, text=True)
    if p.returncode != 0 or len(p.stdout) < 1000:
        raise Inconclusive('MIR dump failed for backend %s:\n%s' % (backend, p.stderr[-3000:]))
    tmp = out + '.tmp'
    open(tmp, 'w').write(p.stdout)
    os.replace(tmp, out)
    return out, time.time() - t, False


class Inconclusive(Exception):
    pass


_parsed = {}


def load_mir(backend='ibig'):
    path, secs, cached = mir_dump(backend)
    if path not in _parsed:
        _parsed[path] = M.parse_mir(open(path).read())
    return _parsed[path], {'backend': backend, 'dump': os.path.basename(path), 'dump_s': round(secs, 1), 'cached': cached}


def new_interp(funcs, **kw):
    return I.Interp(funcs, REPO, models.MODELS, **kw)


def find_fn(funcs, pattern):
    """unique function whose name matches the regex"""
    rx = re.compile(pattern)
    hits = [n for n in funcs if rx.search(n)]
    if len(hits) != 1:
        raise Inconclusive('function lookup %r matched %d functions: %r' % (pattern, len(hits), hits[:5]))
    return hits[0]


def find_fn_where(funcs, pattern, param_contains):
    """unique function whose name matches the regex and whose parameter types contain the given text"""
    rx = re.compile(pattern)
    hits = [n for n in funcs if rx.search(n) and any(param_contains in ty for _, ty in funcs[n].params)]
    if len(hits) != 1:
        raise Inconclusive('function lookup %r / %r matched %d functions: %r' % (pattern, param_contains, len(hits), hits[:5]))
    return hits[0]


def struct_fields(path, name):
    """field names of `struct name {..}` in declaration order, parsed from the current source"""
    src = open(os.path.join(REPO, path)).read()
    m = re.search(r'struct\s+%s\s*(?:<[^>{]*>)?\s*(?:where[^{]*)?\{(.*?)\n\}' % re.escape(name), src, re.S)
    if not m:
        raise Inconclusive('struct %s not found in %s' % (name, path))
    body = re.sub(r'//[^\n]*', '', m.group(1))
    body = re.sub(r'#\[[^\]]*\]', '', body)
    out = []
    for part in M.split_top(body):
        mm = re.match(r'^(?:pub(?:\([^)]*\))?\s+)?(\w+)\s*:', part.strip())
        if mm:
            out.append(mm.group(1))
    return out


def make_struct(path, name, **fields):
    order = struct_fields(path, name)
    if set(order) != set(fields):
        raise Inconclusive('struct %s fields changed: source has %r, harness provides %r' % (name, order, sorted(fields)))
    return I.Agg(name, [fields[f] for f in order])


def field_index(path, name, field):
    order = struct_fields(path, name)
    if field not in order:
        raise Inconclusive('struct %s has no field %s' % (name, field))
    return order.index(field)


# ----------------------------------------------------------------------------- solvers

def smt2_of(assertions, logic='ALL'):
    s = z3.Solver()
    for a in assertions:
        s.add(a)
    txt = s.to_smt2()
    txt = re.sub(r'\(set-info[^\n]*\n', '', txt)
    # z3 prints (set-logic ...) sometimes; normalise
    txt = re.sub(r'\(set-logic [^\)]*\)\n', '', txt)
    txt = txt.replace('(check-sat)', '')
    return '(set-logic %s)\n' % logic + txt


def run_cli(cmd, smt2, timeout):
    t = time.time()
    try:
        p = subprocess.run(cmd, input=smt2, capture_output=True, text=True, timeout=timeout + 5)
    except subprocess.TimeoutExpired:
        return 'timeout', time.time() - t
    out = (p.stdout + p.stderr).strip()
    if '(error' in out or 'error' in out.lower() and 'unsat' not in out and 'sat' not in out:
        return 'error', time.time() - t
    first = out.split('\n')[0].strip() if out else ''
    if first in ('sat', 'unsat', 'unknown'):
        return first, time.time() - t
    if 'timeout' in out.lower() or 'interrupted' in out.lower():
        return 'timeout', time.time() - t
    return 'error', time.time() - t


SOLVERS = {
    'z3-4.8.12': lambda to: ['/usr/bin/z3', '-in', '-T:%d' % to],
    'cvc5-1.0.3': lambda to: ['cvc5', '--lang', 'smt2', '--tlimit=%d' % (to * 1000)],
    'z3-5.1.0': lambda to: ['z3-new', '-in', '-T:%d' % to],
}


class Obligation:
    def __init__(self, name, verdict, solver_s, detail=None):
        self.name = name
        self.verdict = verdict          # 'unsat' | 'sat' | 'unknown' | ...
        self.solver_s = solver_s
        self.detail = detail or {}


class Run:
    """One run of one property check."""

    def __init__(self, pid, tier, seed):
        self.pid = pid
        self.tier = tier
        self.seed = seed
        self.t0 = time.time()
        self.obligations = []       # dicts
        self.functions = {}         # name -> blocks
        self.assumptions = []
        self.bounds = []
        self.notes = []
        self.samples = []
        self.violations = []        # (what, replay path)
        self.known_seen = []
        self.inconclusive = []
        self.suspect = []
        self.solver_time = 0.0
        self.mir_info = []
        self.kani = []
        self.validation = {'samples': 0, 'mismatches': 0}
        self.vacuity = []
        self.cross = (tier == 'thorough') or os.environ.get('VERIF_CROSS', '1') == '1'

    # -- bookkeeping
    def add_functions(self, interp, funcs):
        for n in interp.stats['functions']:
            self.functions[n] = funcs[n].nblocks

    def assume(self, txt):
        if txt not in self.assumptions:
            self.assumptions.append(txt)

    def bound(self, txt):
        if txt not in self.bounds:
            self.bounds.append(txt)

    # -- the deciding step
    def prove(self, name, hyps, neg_goal, timeout=60, expect='unsat', cross=None, sample=None, logic='ALL',
              cross_timeout=None, on_sat='suspect', clear_div=True):
        """Decide  hyps /\\ neg_goal.  expect='unsat': the obligation holds iff unsat.
        expect='sat': vacuity / mutation witness, must be sat.
        Returns (verdict, model or None)."""
        assertions = [h for h in hyps if not (isinstance(h, bool) and h)]
        if isinstance(neg_goal, bool):
            neg_goal = z3.BoolVal(neg_goal)
        assertions = [z3.BoolVal(a) if isinstance(a, bool) else a for a in assertions] + [neg_goal]
        cleared = False
        if clear_div and any(ratfun.has_div(a) for a in assertions):
            # polynomial form (divisors are non-zero by the separately discharged side conditions)
            assertions = [ratfun.clear(a) for a in assertions]
            cleared = True
        # a proof comes back as soon as it is found, so a generous cap costs nothing on a tree where the property holds; it protects the
        # verdict against a loaded machine (a query that needs 15 s alone was seen to need > 60 s next to 60 other solver processes)
        if expect == 'unsat':
            timeout = timeout * float(os.environ.get('VERIF_TIMEOUT_SCALE', '4'))
        s = z3.Solver()
        s.set('timeout', int(timeout * 1000))
        for a in assertions:
            s.add(a)
        t = time.time()
        r = s.check()
        dt = time.time() - t
        self.solver_time += dt
        verdict = str(r)
        model = s.model() if r == z3.sat else None
        rec = {'name': name, 'expect': expect, 'verdict': verdict, 'solver': 'z3-5.1.0 (python API)',
               'solver_s': round(dt, 3)}
        if cleared:
            rec['denominators_cleared'] = True
        # cross-check with independent solver processes on the SMT-LIB2 text
        do_cross = self.cross if cross is None else cross
        if do_cross:
            smt2 = smt2_of(assertions, logic) + '\n(check-sat)\n'
            rec['cross'] = {}
            cto = cross_timeout or max(10, min(timeout, 30 if self.tier == 'quick' else 120))
            names = ['cvc5-1.0.3', 'z3-4.8.12']
            for sn in names:
                v, cdt = run_cli(SOLVERS[sn](int(cto)), smt2, cto)
                self.solver_time += cdt
                rec['cross'][sn] = {'verdict': v, 's': round(cdt, 3)}
                if v in ('sat', 'unsat') and verdict in ('sat', 'unsat') and v != verdict:
                    rec['disagreement'] = True
                    self.inconclusive.append('%s: solver disagreement (%s says %s, z3 says %s)' % (name, sn, v, verdict))
                if verdict == 'unknown' and v in ('sat', 'unsat'):
                    # adopt a definite answer of another solver only for unsat (sat needs a model for replay)
                    if v == 'unsat':
                        verdict = 'unsat'
                        rec['verdict'] = 'unsat'
                        rec['solver'] = sn
        if sample is not None:
            rec['sample'] = sample
        self.obligations.append(rec)
        if expect == 'unsat':
            if verdict == 'unknown':
                self.inconclusive.append('%s: solver returned unknown within %ss' % (name, timeout))
            elif verdict == 'sat' and on_sat == 'suspect':
                # a counterexample for which the caller defines no native replay: never a VIOLATION, never a pass
                self.suspect.append('%s: solver found a counterexample %s' % (name, str(model)[:300]))
            elif verdict not in ('sat', 'unsat'):
                self.inconclusive.append('%s: solver verdict %s' % (name, verdict))
        elif expect == 'sat':
            if verdict != 'sat':
                self.inconclusive.append('%s: witness query expected sat, got %s (vacuity / self-mutation check failed)' % (name, verdict))
        return verdict, model

    def witness(self, name, hyps, timeout=20):
        """vacuity guard: the hypotheses alone must be satisfiable"""
        v, m = self.prove(name + ' [premises satisfiable]', hyps, True, timeout=timeout, expect='sat', cross=False)
        self.vacuity.append({'name': name, 'verdict': v})
        return v == 'sat'

    def guard(self, fn, *args, **kw):
        """run one group of obligations; a group that cannot be encoded for the current tree (construct outside the model table, unexpected
        shape of the MIR) is recorded as inconclusive and does not keep the remaining groups from being decided"""
        from .interp import Unsupported
        try:
            return fn(self, *args, **kw)
        except (Inconclusive, Unsupported) as e:
            self.inconclusive.append('%s not encoded: %s: %s' % (getattr(fn, '__name__', 'group'), type(e).__name__, str(e)[:400]))
        except (KeyError, IndexError, AttributeError, TypeError, ValueError, AssertionError) as e:
            import traceback
            self.inconclusive.append('%s aborted: %s: %s | %s' % (getattr(fn, '__name__', 'group'), type(e).__name__, str(e)[:200], traceback.format_exc().strip().splitlines()[-3][:200]))
        return None

    # -- reporting
    def violation(self, what, replay_path):
        self.violations.append((what, replay_path))

    def finish(self, level, explanation, extra_cov=None, trusted=None):
        if not self.violations and (self.suspect or self.inconclusive) and os.environ.get('VERIF_NO_FALLBACK') != '1':
            try:
                from props import oracle
                oracle.fallback(self)
            except Exception as e:      # the fallback can only add a natively observed violation; its own failure changes nothing
                self.notes.append('native fallback battery failed: %s' % str(e)[:200])
        wall = time.time() - self.t0
        known = load_known(self.pid)
        n_obl = len([o for o in self.obligations if o['expect'] == 'unsat']) + len([k for k in self.kani if k.get('role') == 'proof'])
        n_dis = len([o for o in self.obligations if o['expect'] == 'unsat' and o['verdict'] == 'unsat']) + \
            len([k for k in self.kani if k.get('role') == 'proof' and k.get('verdict') == 'SUCCESSFUL'])
        cov = {
            'explanation': explanation,
            'obligations': n_obl,
            'discharged': n_dis,
            'checker_cmd': './check %s --tier %s' % (self.pid, self.tier),
            'trusted_base': trusted or [],
            'functions_encoded': [{'mir_fn': k, 'blocks': v} for k, v in sorted(self.functions.items())],
            'bounds': self.bounds,
            'queries': self.obligations,
            'kani_harnesses': self.kani,
            'vacuity_witnesses': self.vacuity,
            'translator_validation': self.validation,
            'solver_time_s': round(self.solver_time, 2),
            'mir': self.mir_info,
            'samples': self.samples[:8] or [o['name'] for o in self.obligations[:5]] or [k['harness'] for k in self.kani[:5]],
            'evaluations': max(1, len(self.obligations) + len(self.kani)),
            'distinct_nontrivial': len({o['name'] for o in self.obligations if o['expect'] == 'unsat'}) + len({k['harness'] for k in self.kani}),
            'rule': 'one evaluation = one solver query (SMT obligation or Kani harness); distinct = distinct obligation names; non-trivial = the negated property is asserted (expect=unsat), witnesses/vacuity queries are not counted',
            'known_findings_seen': self.known_seen,
            'inconclusive': self.inconclusive,
            'notes': self.notes,
        }
        if extra_cov:
            cov.update(extra_cov)
        ev = {'property_id': self.pid, 'tier': self.tier, 'seed': self.seed, 'level': level, 'coverage': cov,
              'assumptions': self.assumptions, 'wall_s': round(wall, 2), 'violations': len(self.violations)}
        os.makedirs(os.path.join(VERIF, 'evidence'), exist_ok=True)
        tmp = os.path.join(VERIF, 'evidence', '%s.json.tmp' % self.pid)
        json.dump(ev, open(tmp, 'w'), indent=1, default=str)
        os.replace(tmp, os.path.join(VERIF, 'evidence', '%s.json' % self.pid))
        for k in self.known_seen:
            log('KNOWN-FINDING: property=%s %s' % (self.pid, k))
        if self.violations:
            for what, path in self.violations:
                log('VIOLATION property=%s replay=%s' % (self.pid, path))
                log('  ' + what)
            return 1
        if self.suspect:
            for sline in self.suspect:
                log('SUSPECT (solver counterexample did not reproduce natively): ' + sline)
            return 2
        if self.inconclusive:
            for sline in self.inconclusive:
                log('INCONCLUSIVE: ' + sline)
            return 3
        log('%s %s: %d/%d obligations discharged, solver %.1fs, wall %.1fs' % (self.pid, self.tier, n_dis, n_obl, self.solver_time, wall))
        return 0


def load_known(pid):
    p = os.path.join(VERIF, 'known_findings.json')
    if not os.path.exists(p):
        return []
    data = json.load(open(p))
    return [k for k in data.get('known', []) if k.get('property') == pid]


# ----------------------------------------------------------------------------- model values

def model_value(model, term):
    """evaluate a z3 term in a model -> Fraction / int / bool (algebraic numbers approximated to 1e-15)"""
    v = model.eval(term, model_completion=True)
    if z3.is_int_value(v):
        return v.as_long()
    if z3.is_rational_value(v):
        return Fraction(v.numerator_as_long(), v.denominator_as_long())
    if z3.is_algebraic_value(v):
        a = v.approx(20)
        return Fraction(a.numerator_as_long(), a.denominator_as_long())
    if z3.is_true(v):
        return True
    if z3.is_false(v):
        return False
    raise Inconclusive('cannot read model value of %s: %s' % (term, v))


# ----------------------------------------------------------------------------- native replay bridge

REPLAY_DIR = os.path.join(VERIF, 'replay')


def replay_bin(profile='debug', backend='ibig'):
    tgt = os.path.join(CACHE, 'target-replay' if backend == 'ibig' else 'target-replay-%s' % backend)
    lock_src = os.path.join(REPO, 'Cargo.lock')
    lock_dst = os.path.join(REPLAY_DIR, 'Cargo.lock')
    if os.path.exists(lock_src) and not os.path.exists(lock_dst):
        import shutil
        shutil.copy(lock_src, lock_dst)
    cmd = ['cargo', 'build', '--offline', '--target-dir', tgt]
    if backend != 'ibig':
        cmd += ['--no-default-features', '--features', 'backend-' + backend]
    if profile == 'release':
        cmd.append('--release')
    p = subprocess.run(cmd, cwd=REPLAY_DIR, env=ENV, capture_output=True, text=True)
    if p.returncode != 0:
        raise Inconclusive('replay crate does not build against the current tree:\n' + p.stderr[-3000:])
    return os.path.join(tgt, profile, 'vreplay')


def native(lines, profile='debug', backend='ibig'):
    """run command lines through the native replay binary; returns list of token lists"""
    b = replay_bin(profile, backend)
    p = subprocess.run([b], input='\n'.join(lines) + '\n', capture_output=True, text=True, env=dict(ENV, RUST_BACKTRACE='0'))
    outs = [l.split() for l in p.stdout.strip().split('\n') if l.strip()]
    if len(outs) != len(lines):
        raise Inconclusive('replay binary returned %d lines for %d commands (rc=%s): %s' % (len(outs), len(lines), p.returncode, p.stderr[-500:]))
    return outs


def f2s(x):
    """number -> decimal text that parses to the nearest f64"""
    return repr(float(x))


def save_replay(pid, payload):
    d = os.path.join(VERIF, 'replays')
    os.makedirs(d, exist_ok=True)
    txt = json.dumps(payload, indent=1, default=str, sort_keys=True)
    h = hashlib.sha256(txt.encode()).hexdigest()[:10]
    path = os.path.join(d, '%s-%s.json' % (pid, h))
    open(path, 'w').write(txt)
    return path
