#!/bin/bash
# confirm_seeded.sh <ID> <k> : confirms mutation /tmp/mut/<ID>/out/m<k> in the scratch worktree /tmp/mut/<ID>
# and stores it under /verif/seeded/<ID>-m<k>/ when (a) suite unchanged (b) demo fails with (c) demo passes without.
ID=$1; K=$2
W=/tmp/mut/$ID; O=$W/out/m$K; D=/verif/seeded/$ID-m$K
export CARGO_NET_OFFLINE=true CARGO_TARGET_DIR=/tmp/mut/target-$ID
cd $W || exit 9
git checkout -q -- . ; rm -f tests/demo.rs
cp /repo/Cargo.lock . 2>/dev/null
git apply $O/patch.diff || { echo "$ID m$K: patch does not apply"; exit 1; }
suite=$(cargo test --offline --no-fail-fast -j 6 2>&1 | grep -E "^test result" | awk '{p+=$4; f+=$6} END {print p" passed "f" failed"}')
if [ -f $O/demo.rs ]; then cp $O/demo.rs tests/demo.rs; fi
if [ -f $O/demo.diff ]; then git apply $O/demo.diff; fi
with=$(cargo test --offline --no-fail-fast -j 6 --test demo $FEAT 2>&1 | grep -E "^test result" | awk '{p+=$4; f+=$6} END {print p" passed "f" failed"}')
git checkout -q -- . ; 
without=$(cargo test --offline --no-fail-fast -j 6 --test demo $FEAT 2>&1 | grep -E "^test result" | awk '{p+=$4; f+=$6} END {print p" passed "f" failed"}')
rm -f tests/demo.rs
echo "$ID m$K: suite[$suite] demo-with[$with] demo-without[$without]"
mkdir -p $D && cp $O/patch.diff $D/ && cp $O/demo.rs $D/ 2>/dev/null; cp $O/README.md $D/ 2>/dev/null; cp $O/demo*.diff $D/ 2>/dev/null
echo "suite[$suite] demo-with[$with] demo-without[$without]" > $D/confirm.txt
