"""usage: python3-vt tools/kani_try.py <pid> <timeout_s> <jobs> harness..."""
import sys

sys.path.insert(0, '/verif')
from mirsym import engine, kanirun

pid, to, jobs = sys.argv[1], int(sys.argv[2]), int(sys.argv[3])
run = engine.Run(pid, 'quick', 0)
hs = [{'name': h, 'role': 'proof', 'timeout': to} for h in sys.argv[4:]]
v = kanirun.run(run, pid, hs, jobs=jobs, total_timeout=to)
for k in run.kani:
    print(k['harness'], k['verdict'], k['wall_s'], k['cbmc_s'], k['failed_checks'][:2], k['covers'][:2])
print('inconclusive:', run.inconclusive)
print('violations:', run.violations, 'suspect:', run.suspect)
