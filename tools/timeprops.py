"""debug helper: run a property check printing the time of every solver query
usage: python3-vt tools/timeprops.py C19 [quick|thorough]"""
import sys
import time

sys.path.insert(0, '/verif')
import mirsym.engine as E

orig = E.Run.prove


def prove(self, name, *a, **k):
    t = time.time()
    r = orig(self, name, *a, **k)
    print('%.1fs %s -> %s' % (time.time() - t, name[:110], r[0]), flush=True)
    return r


E.Run.prove = prove
import importlib

pid = sys.argv[1]
tier = sys.argv[2] if len(sys.argv) > 2 else 'quick'
mod = importlib.import_module('props.' + pid)
run = E.Run(pid, tier, 0)
run.cross = False
print('rc', mod.check(run))
