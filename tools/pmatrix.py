#!/usr/bin/env python3
"""pmatrix.py [--tier quick] [--only C03-m1,...] [--props own|all|C03,C04] [--workers 4] [--skip-done]
Parallel version of seed_matrix.py that never touches /repo: every seeded change is applied to its own scratch git worktree of /repo
under /tmp/pmx/<seed>/repo, and the checks run from a scratch copy of /verif's tracked files (/tmp/pmx/<seed>/verif, path dependencies
rewritten to the scratch worktree, VERIF_REPO pointing at it, own .cache).  Scratch trees are removed when a seed is done.
Results are merged into /verif/seeded/MATRIX.json (same format as seed_matrix.py)."""
import argparse
import json
import os
import re
import shutil
import subprocess
import sys
import threading
import time

V = '/verif'
R = '/repo'
ROOT = '/tmp/pmx'
lock = threading.Lock()


def sh(cmd, **kw):
    return subprocess.run(cmd, shell=True, capture_output=True, text=True, **kw)


def prepare(seed):
    base = os.path.join(ROOT, seed)
    if os.path.exists(base):
        sh('git -C %s worktree remove --force %s/repo' % (R, base))
        shutil.rmtree(base, ignore_errors=True)
    os.makedirs(base)
    repo = os.path.join(base, 'repo')
    r = sh('git -C %s worktree add --detach %s HEAD' % (R, repo))
    if r.returncode != 0:
        return None, None, 'worktree: ' + r.stderr[-300:]
    shutil.copy(os.path.join(R, 'Cargo.lock'), os.path.join(repo, 'Cargo.lock'))
    r = sh('git -C %s apply %s/seeded/%s/patch.diff' % (repo, V, seed))
    if r.returncode != 0:
        return repo, None, 'patch does not apply: ' + r.stderr.strip()[:200]
    verif = os.path.join(base, 'verif')
    os.makedirs(verif)
    sh('cd %s && git ls-files -z | grep -zv "^seeded/" | xargs -0 cp --parents -t %s' % (V, verif))
    for f in ('kani/Cargo.toml', 'replay/Cargo.toml', 'downstream/ok/Cargo.toml', 'downstream/withdata/Cargo.toml'):
        p = os.path.join(verif, f)
        if os.path.exists(p):
            s = open(p).read().replace('path = "/repo"', 'path = "%s"' % repo)
            open(p, 'w').write(s)
    os.makedirs(os.path.join(verif, 'replays'), exist_ok=True)
    os.makedirs(os.path.join(verif, 'evidence'), exist_ok=True)
    return repo, verif, None


def cleanup(seed):
    base = os.path.join(ROOT, seed)
    sh('git -C %s worktree remove --force %s/repo' % (R, base))
    shutil.rmtree(base, ignore_errors=True)
    sh('git -C %s worktree prune' % R)


def work(seed, props, tier, matrix, mpath):
    repo, verif, err = prepare(seed)
    if err:
        print('%s: %s' % (seed, err), flush=True)
        with lock:
            matrix.setdefault(seed, {})['apply'] = err
        cleanup(seed)
        return
    try:
        env = dict(os.environ, VERIF_REPO=repo, CARGO_NET_OFFLINE='true')
        env.pop('VERIF_CACHE', None)
        for p in props:
            t = time.time()
            o = subprocess.run('./check %s --tier %s' % (p, tier), shell=True, cwd=verif, env=env, capture_output=True, text=True)
            txt = o.stdout + o.stderr
            vio = [l[:300].replace(verif, V) for l in txt.splitlines() if l.startswith('VIOLATION')]
            other = [l[:300] for l in txt.splitlines() if re.match(r'^(INCONCLUSIVE|SUSPECT)', l)]
            # keep the replay files of reported violations next to the seed for later inspection
            with lock:
                # other matrix runs may have written meanwhile: merge into the file's current content
                try:
                    cur = json.load(open(mpath))
                except Exception:
                    cur = {}
                cur.setdefault(seed, {}).setdefault(tier, {})[p] = {'rc': o.returncode, 'violations': vio[:3], 'other': other[:3],
                                                                    'wall_s': round(time.time() - t, 1)}
                matrix.clear()
                matrix.update(cur)
                tmp = mpath + '.tmp%d' % os.getpid()
                json.dump(matrix, open(tmp, 'w'), indent=1, sort_keys=True)
                os.replace(tmp, mpath)
            print('%s vs %s [%s]: rc=%d %.0fs %s' % (seed, p, tier, o.returncode, time.time() - t, (vio or other or [''])[0][:200]), flush=True)
            lp = os.path.join(ROOT, 'logs')
            os.makedirs(lp, exist_ok=True)
            open(os.path.join(lp, '%s-%s-%s.log' % (seed, p, tier)), 'w').write(txt)
    finally:
        cleanup(seed)


def main():
    ap = argparse.ArgumentParser()
    ap.add_argument('--tier', default='quick')
    ap.add_argument('--only', default='')
    ap.add_argument('--props', default='own')
    ap.add_argument('--workers', type=int, default=4)
    ap.add_argument('--skip-done', action='store_true')
    a = ap.parse_args()
    mpath = os.path.join(V, 'seeded', 'MATRIX.json')
    matrix = json.load(open(mpath)) if os.path.exists(mpath) else {}
    seeds = sorted(d for d in os.listdir(os.path.join(V, 'seeded')) if os.path.isfile(os.path.join(V, 'seeded', d, 'patch.diff')))
    if a.only:
        pats = a.only.split(',')
        seeds = [s for s in seeds if s in pats or any(re.fullmatch(p, s) for p in pats)]
    registered = [c['property_id'] for c in json.load(open(os.path.join(V, 'MANIFEST.json')))['checks']]
    jobs = []
    for s in seeds:
        meta_p = os.path.join(V, 'seeded', s, 'meta.json')
        meta = json.load(open(meta_p)) if os.path.exists(meta_p) else {}
        own = meta.get('property', s.split('-')[0])
        if a.props == 'own':
            props = [own] + [p for p in meta.get('also_check', [])]
        elif a.props == 'all':
            props = registered
        else:
            props = a.props.split(',')
        props = [p for p in props if p in registered]
        if a.skip_done:
            props = [p for p in props if p not in matrix.get(s, {}).get(a.tier, {})]
        if props:
            jobs.append((s, props))
        else:
            print('%s: nothing to run' % s)
    os.makedirs(ROOT, exist_ok=True)
    sem = threading.Semaphore(a.workers)
    ths = []

    def runner(s, props):
        with sem:
            work(s, props, a.tier, matrix, mpath)

    for s, props in jobs:
        th = threading.Thread(target=runner, args=(s, props))
        th.start()
        ths.append(th)
        time.sleep(0.2)
    for th in ths:
        th.join()


if __name__ == '__main__':
    main()
