#!/usr/bin/env python3
"""confirm_seeded.py <ID> <k> [--features F] : confirm the seeded change /tmp/mut/<ID>/out/m<k> in the scratch worktree /tmp/mut/<ID>
(a worktree of /repo, outside /repo and /verif) and, when confirmed, store it as /verif/seeded/<ID>-m<k>/ (patch.diff, demo, README.md, meta.json).
Confirmed means: (a) with the change the crate builds and the existing suite has no failure other than the baseline one
(voronoi::tests::test_non_perturbed_z); (b) the demonstration FAILS with the change; (c) it PASSES without it."""
import json
import os
import re
import shutil
import subprocess
import sys

ID, K = sys.argv[1], sys.argv[2]
feat = []
if '--features' in sys.argv:
    feat = ['--no-default-features', '--features', sys.argv[sys.argv.index('--features') + 1]]
W = '/tmp/mut/%s' % ID
O = '%s/out/m%s' % (W, K)
D = '/verif/seeded/%s-m%s' % (ID, K)
env = dict(os.environ, CARGO_NET_OFFLINE='true', CARGO_TARGET_DIR='/tmp/mut/target-%s' % ID)


def sh(cmd):
    return subprocess.run(cmd, shell=True, cwd=W, env=env, capture_output=True, text=True)


def clean():
    sh('git checkout -q -- . ; rm -f tests/demo.rs; git clean -fdq -- src tests')


def results(txt):
    failed = sorted(set(re.findall(r'^test (\S+) \.\.\. FAILED', txt, re.M)))
    passed = len(re.findall(r'^test \S+ \.\.\. ok', txt, re.M))
    built = 'error: could not compile' not in txt and 'error[E' not in txt
    return built, passed, failed


def add_demo():
    if os.path.exists(O + '/demo.rs'):
        shutil.copy(O + '/demo.rs', W + '/tests/demo.rs')
        return 'cargo test --offline -j 6 --no-fail-fast --test demo ' + ' '.join(feat)
    if os.path.exists(O + '/demo.diff'):
        r = sh('git apply %s/demo.diff' % O)
        if r.returncode != 0:
            print('demo.diff does not apply: ' + r.stderr[:300])
        return 'cargo test --offline -j 6 --no-fail-fast --lib ' + ' '.join(feat)
    raise SystemExit('no demo')


clean()
shutil.copy('/repo/Cargo.lock', W + '/Cargo.lock')
r = sh('git apply %s/patch.diff' % O)
if r.returncode != 0:
    raise SystemExit('%s m%s: patch does not apply: %s' % (ID, K, r.stderr[:300]))
o = sh('cargo test --offline -j 6 --no-fail-fast')
built, passed, failed = results(o.stdout + o.stderr)
suite_ok = built and set(failed) <= {'voronoi::tests::test_non_perturbed_z'}
cmd = add_demo()
o = sh(cmd)
b2, p_with, f_with = results(o.stdout + o.stderr)
f_with = [f for f in f_with if f != 'voronoi::tests::test_non_perturbed_z']
clean()
cmd = add_demo()
o = sh(cmd)
b3, p_without, f_without = results(o.stdout + o.stderr)
f_without = [f for f in f_without if f != 'voronoi::tests::test_non_perturbed_z']
clean()
ok = suite_ok and b2 and b3 and len(f_with) > 0 and len(f_without) == 0 and p_without > 0
line = '%s m%s: suite[built=%s %d passed, failed=%r] demo-with[%d passed, failed=%r] demo-without[%d passed, failed=%r] -> %s' % (
    ID, K, built, passed, failed, p_with, f_with, p_without, f_without, 'CONFIRMED' if ok else 'REJECTED')
print(line)
if ok:
    os.makedirs(D, exist_ok=True)
    for f in ('patch.diff', 'demo.rs', 'demo.diff', 'README.md'):
        if os.path.exists(os.path.join(O, f)):
            shutil.copy(os.path.join(O, f), os.path.join(D, f))
    needs = {}
    if os.path.exists('/tmp/mut/needs.json'):
        needs = json.load(open('/tmp/mut/needs.json'))
    if os.path.exists('/tmp/mut/needs.jsonl'):
        for l in open('/tmp/mut/needs.jsonl'):
            try:
                d_ = json.loads(l)
                needs[d_['id']] = d_['needs']
            except Exception:
                pass
    readme = open(os.path.join(O, 'README.md')).read() if os.path.exists(os.path.join(O, 'README.md')) else ''
    meta = {
        'property': ID,
        'breaks': (readme.strip().splitlines() or [''])[0].lstrip('# ').strip(),
        'needs_to_manifest': needs.get('%s-m%s' % (ID, K), 'see README.md'),
        'origin': 'written by a fresh sub-agent that was given only the text of property %s and its own scratch worktree /tmp/mut/%s' % (ID, ID),
        'confirmed_by': 'tools/confirm_seeded.py in the scratch worktree /tmp/mut/%s (removed afterwards)' % ID,
        'ran': ['git apply patch.diff; cargo test --offline --no-fail-fast  -> %d passed, failed: %r (baseline failure only)' % (passed, failed),
                '%s  with the change -> failed: %r' % (cmd, f_with),
                '%s  without the change -> %d passed, 0 failed' % (cmd, p_without)],
        'demo_features': feat[1] if feat else None,
    }
    json.dump(meta, open(os.path.join(D, 'meta.json'), 'w'), indent=1)
sys.exit(0 if ok else 1)
