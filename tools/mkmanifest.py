#!/usr/bin/env python3
"""Regenerates /verif/MANIFEST.json from the table below (kept in one place so that it stays valid)."""
import json
import os
import subprocess

V = os.path.dirname(os.path.dirname(os.path.abspath(__file__)))
props = [json.loads(l) for l in open(os.path.join(V, 'properties.jsonl'))]

TRUST_M = 'rustc MIR printer; z3/cvc5; model table of mirsym (glam componentwise ops, core float ops over R, big integers as Z) validated against the native functions on every run; f64 read as exact reals (rounding outside the claim)'
TRUST_K = 'Kani 0.68 codegen and CBMC 6.11 (IEEE-754 model, CaDiCaL); stubs and assumptions listed in the evidence file'

CHECKS = {
    'C01': dict(cat='other', tech='symbolic execution of the MIR of cuboid, init, HalfSpace::new, clip_by_plane, the tetrahedral decomposition and VolumeIntegral with a symbolic clipping plane -> rational-function identities against a closed-form reference, decided by z3 (portfolio of two z3 versions); builder-loop and neighbour-pipeline obligations',
                text='Bounded end-to-end claim, solver-decided over the reals: ONE clip of the initial cell of a concrete box by an arbitrary plane (symbolic normal and point; all normal components non-zero; no corner inside the float error band). On each of the 81 paths: exactly the corners on the negative side are removed, the new vertices lie on the plane, on their walls and inside the box (one per cut edge), and the computed volume equals the closed-form volume of box /\\ half-space (independent inclusion-exclusion reference). Hence for two generators anywhere in the box each cell is the nearest-generator region with the exact volume. Removed-corner counts {0,1,2,6,7} (cuts through 3, 4 or 5 corners - 11-12 vertices, hexagonal sections - are outside: their identities were not attempted within the time budget); thorough tier: a second, non-cubic box with non-zero anchor. Further clips are covered only through their mechanisms (candidates clipped in distance order until farther than the safety radius; every search result reaches the builder). Centroids, face areas, several clips on symbolic vertices and the r-tree order are outside.',
                note=TRUST_M, ref='DESIGN.md 7.4'),
    'C02': dict(cat='other', tech='same single-clip encoding as C01 -> polynomial identities decided by z3: computed volume = closed form, closed forms of the two sides of the plane add up to the box volume, positivity; box normalisation obligations',
                text='Bounded claim, solver-decided over the reals: for two generators (one clip of the initial cell by an arbitrary plane) the two computed cell volumes are the closed-form volumes of the two sides of the bisector, which add up to the box volume for every removed-corner pattern and sign pattern of the normal, and are positive (thorough tier). Unit thickness of unused axes: anchor/width normalised to -0.5/1 on both routes; periodic box tripled exactly on active axes. More than two generators, periodic sums and 1D/2D sums are outside.',
                note=TRUST_M, ref='DESIGN.md 7.4'),
    'C10': dict(cat='other', tech='symbolic execution of the MIR of in_sphere_test_exact -> SMT (z3, cross-checked cvc5/z3-4.8); Kani/CBMC harnesses for the grid map',
                text='Solver-decided, bounded: for all 15 coordinates in [0,2^52) the determinant computed by the real MIR equals the Leibniz lifted determinant, no i64 subtraction overflows, the sign tail returns sgn(D) for every integer D; circumsphere lemma over R; grid-map range/monotonicity bit-precisely by Kani within the stated box bounds. Not a proof outside those bounds.',
                note=TRUST_M + '; ' + TRUST_K + '; big-integer crates implement Z exactly', ref='DESIGN.md 4 C10'),
    'C11': dict(cat='other', tech='per-backend MIR dump -> symbolic execution -> SMT equality with one reference polynomial',
                text='Solver-decided, bounded: the predicate of every buildable backend (ibig, dashu, malachite, num_bigint; quick: ibig + one seeded other) equals the same reference determinant sign on [0,2^52)^15, hence pairwise agreement. rug is outside (not buildable).',
                note=TRUST_M + '; each big-integer crate implements Z exactly', ref='DESIGN.md 4 C11'),
    'C03': dict(cat='other', tech='symbolic execution of the MIR of the face-construction closure and of the periodic-image code -> SMT (uninterpreted mask, symbolic labels)',
                text='Solver-decided for every mask (uninterpreted array of any length), all labels i != j and all label/dimension combinations: an unshifted face between two cells is constructed by exactly one of two constructed cells (the lower index), by the constructed one if only one is, shifted/wall faces always by their own cell, never for normals outside the active subspace; recorded left/right/shift are the plane\'s; reported periodic shift = -(query shift), absent iff zero; the image set is exactly {-w,0,w}^d and closed under negation. Geometric equality of the two sides (area, centroid) is outside.',
                note=TRUST_M + '; std Option/Vec/iterator semantics modelled positionally', ref='DESIGN.md 4 C03'),
    'C07': dict(cat='other', tech='symbolic execution of the MIR of the per-cell build closures, the face rule and build_partial -> SMT',
                text='Solver-decided for every mask: the mask reaches a tessellation only through the build guard (exactly "absent or mask[idx]") and the face rule; unselected cells are zero volume/centroid with their own index and no faces; the arguments of ConvexCell::build do not contain the mask; selected-unselected faces exist exactly once with the selected cell on the left; build_partial forwards the caller\'s mask (all 2^3 masks of length 3). The construction of a single ConvexCell is not encoded.',
                note=TRUST_M + '; std Option/Vec/iterator semantics modelled positionally', ref='DESIGN.md 4 C07'),
    'C12': dict(cat='other', tech='symbolic execution (forking on symbolic indices, z3-pruned) of the MIR of Voronoi::finalize, face_indices, neighbour_ids and of the build closures',
                text='Solver-decided on every feasible path for an arbitrary face list (3 cells x 2 faces quick; 3x3 and 4x2 thorough; labels symbolic, presence of right/shift enumerated): prefix-sum offsets, total length, each cell lists exactly its left faces and unshifted right faces once, neighbour_ids = other side of non-boundary non-periodic faces, never the cell itself, no duplicates - including unconstructed cells, whose index is tied to their position at both creation sites. Producer invariants (C03/C07) are assumed.',
                note=TRUST_M + '; std Vec/iterator semantics modelled positionally', ref='DESIGN.md 4 C12'),
    'C20': dict(cat='other', tech='symbolic execution of the MIR of space.rs / bounding_sphere.rs leaf functions -> SMT over the reals',
                text='Solver-decided leaf lemmas: Space::new cell geometry for a 2x3x2 grid with symbolic (non-cubic) box; get_cid row-major bijection with symbolic indices; get_r_ring = Chebyshev ring (concrete 2x3x2 grid, executed through the interpreter); Cell::min_distance_squared is an admissible lower bound and min_distance_to_face a safe radius; one (two: thorough) iteration(s) of the Epos6 sphere-of-spheres extension contain the previous sphere and the new one from every reachable pre-state. The kNN loop, Welzl recursion and minimality are not encoded.',
                note=TRUST_M, ref='DESIGN.md 4 C20'),
    'C13': dict(cat='other', tech='symbolic execution of the MIR of the two face-integral loops, the conversion closures and the box normalisation -> SMT',
                text='Solver-decided for enumerated plane labels x symbolic indices/mask on a 3-plane / 5-tetrahedra harness list: symmetric = non-symmetric minus exactly the unshifted planes towards a constructed lower-index neighbour, plane order, labels, one delivery of each tetrahedron to its own plane; face rule with mask None = all-true mask; identical 1D/2D box normalisation on both routes. Integrator side only; bitwise agreement with the r-tree route and of float sums is outside.',
                note=TRUST_M + '; std Option/Vec/iterator semantics modelled positionally', ref='DESIGN.md 4 C13'),
    'C04': dict(cat='other', tech='symbolic execution of the MIR of the face init/collect/finalize code, cuboid and the builder loop -> SMT',
                text='Solver-decided over the reals / symbolic labels: the stored face normal is minus the inward plane normal of the left cell; wall normals are inward unit axes; neighbour planes carry the unit normal from the neighbour towards the generator through the midpoint; finalize divides by 3 x area for every positive area (centroid = affine combination of triangle vertices); each face of a constructed cell is present in the tessellation (store-once rule). Closure and the divergence identity (cell-level float sums) are outside.',
                note=TRUST_M, ref='DESIGN.md 4 C04'),
    'C05': dict(cat='other', tech='Kani/CBMC harnesses on cuboid + iloc (bit-precise f64) + symbolic execution of the MIR of the leaf guards -> SMT; native re-observation of the listed known finding',
                text='Totality of the leaf guards only: the position -> grid map stays in [1,2)/[0,2^52) for every queried position (Kani, one axis symbolic, |anchor| <= 2^20, 2^-10 <= width <= 2^20, positions in [A-W-h, A+2W]; quick: x axis reflective; thorough: y, z and periodic) and for every box over the reals; HalfSpace::new error bound >= EPSILON(1+sum|n_i p_i|) > 0, clip = 0 exactly inside the band; wall mirror image = exact reflection; the builder panics only for coincident points. Global consistency of tie decisions is NOT claimed: a genuine defect there (generators exactly on a wall) is a listed known finding, re-observed natively.',
                note=TRUST_M + '; ' + TRUST_K, ref='DESIGN.md 4 C05, 5'),
    'C06': dict(cat='other', tech='symbolic execution of the MIR of the periodic-image enumeration, shift closure, cuboid, right_loc and one builder-loop iteration -> SMT',
                text='Solver-decided over symbolic boxes/positions: exactly the 3^d lattice shifts are enumerated (only on active axes), closed under negation; reported shift = -(query shift), absent iff zero; the box is tripled exactly on active periodic axes and the integer grid domain contains it with margin; neighbour position = generator + shift; every candidate within the safety radius - including the cell\'s own images - is clipped by its labelled bisector. Equality with the replicated tessellation and translation invariance are outside.',
                note=TRUST_M, ref='DESIGN.md 4 C06'),
    'C08': dict(cat='other', tech='Kani/CBMC harnesses (bit-precise) + symbolic execution of MIR -> SMT',
                text='Generator::new erases unused coordinates for every f64 bit pattern (Kani); vector_is_valid (Kani); box normalisation on both routes, active-subspace vertex radius, images and tripling only on active axes, no faces for normals outside the active subspace in all three face producers (MIR -> z3). The 1D closed form and 2D = 3D slab equalities are outside.',
                note=TRUST_M + '; ' + TRUST_K, ref='DESIGN.md 4 C08'),
    'C14': dict(cat='other', tech='rustc verdict on downstream implementability + symbolic execution of the MIR of the *_with_data methods, the decomposition and the built-in collectors -> SMT',
                text='Compiler-decided (reported separately): a downstream crate implementing CellIntegral/FaceIntegral type-checks; a downstream *WithData impl with Data != () does not (E0119, known finding). Solver-decided: per-cell data alignment of the three *_with_data methods (3 cells, all presence patterns, symbolic data); every base triangle of the six tetrahedra emitted for a vertex lies in the plane of its plane_idx and ends at the vertex (symbolic vertex/planes); built-in collectors add exactly the signed measure and first moment per tetrahedron/triangle; each tetrahedron reaches the integrator of its own plane once. The global tiling (signed tetrahedra sum to the cell), second moments and with/without-faces agreement are outside.',
                note=TRUST_M + '; rustc type checking', ref='DESIGN.md 4 C14'),
    'C15': dict(cat='other', tech='symbolic execution of the MIR of with_faces / sort_face_vertices / the face accessors on catalogue cells -> SMT + structural checks',
                text='with_faces on 1D/2D cells has no non-panicking path; the accessors neighbour/shift/clipping_plane/face_vertex_count/face_vertices return the indexed half-space / face data for symbolic labels (incl. the cell\'s own periodic image); on the catalogue (initial cube, tetrahedron, corner-cut cube; seeded storage orders and dual rotations: 7 quick / 41 thorough each) every vertex is in exactly the three faces of its dual, faces are single cycles with two shared planes per edge in the direction induced by the duals, V-E+F = 2, discard_faces().with_faces() is the identity and face data is present whenever accessed unchecked. The catalogue part is concrete execution through the interpreter, not a symbolic proof. Planarity/convexity/area are outside.',
                note=TRUST_M + '; std Vec/slice/iterator semantics modelled positionally', ref='DESIGN.md 4 C15'),
    'C16': dict(cat='other', tech='symbolic execution of the MIR of from_dual, update_safety_radius, HalfSpace::new/clip and one builder-loop iteration -> SMT over the reals',
                text='Solver-decided per-step lemma: active-subspace vertex radius; sr = 2 sqrt(max radius^2) (3 vertices quick / 4 thorough); a bisector of any generator farther than sr clips no vertex (factor 1.5 refuted); the loop returns the cell unchanged iff the candidate is farther than sr. The history quantifier is a composition argument with C17, not a query.',
                note=TRUST_M, ref='DESIGN.md 4 C16'),
    'C17': dict(cat='other', tech='symbolic execution of the MIR of rtree_nn.rs leaf functions -> SMT over the reals',
                text='Solver-decided leaf lemmas: wrapped leaf distance = distance to the reported image; envelope distance is an admissible lower bound and zero iff inside; heap order is the reversed distance order; the initial heap holds exactly the 3^d shifts; shift absent iff zero. The best-first loop over rstar nodes and rstar itself are not encoded.',
                note=TRUST_M + '; rstar trusted', ref='DESIGN.md 4 C17'),
    'C18': dict(cat='other', tech='Kani/CBMC inductive step on SimpleCycle + symbolic execution of the MIR of clip_by_plane/compute_boundary with a symbolic plane -> SMT',
                text='Kani: one try_extend step from an arbitrary valid cycle over 6 planes (also plane indices 62..67) keeps it a valid cycle, +-1 length, Err leaves the state untouched (covers histories of any length). Engine M: the real clip_by_plane on the initial cube cell (duals from the MIR of init) and a tetrahedron with a symbolic clipping plane and uninterpreted exact-predicate signs: removal rule, (cur,next,new) vertices along the cycle, closed polytope, result a function of the removed set only across seeded storage orders/rotations (at most 1 tie per path quick, 3 thorough). Volumes (float sums) and cells beyond the catalogue are outside.',
                note=TRUST_M + '; ' + TRUST_K, ref='DESIGN.md 4 C18'),
    'C19': dict(cat='other', tech='symbolic execution of each helper\'s MIR -> polynomial identities over R decided by z3 (cvc5 / z3-4.8 cross-check), native replay of counterexamples',
                text='Solver-decided for all real arguments under the documented non-degeneracy: the defining equations of intersect_planes, Plane::project_onto(_intersection), signed_volume_tet, signed_area_tri, Sphere::from_{two,three,four}_points, Sphere::extend and the float in-sphere polynomial hold as identities of the arithmetic the compiler sees (f64 read as exact reals; rounding and conditioning outside the claim).',
                note=TRUST_M, ref='DESIGN.md 4 C19'),
}


ADDED = {
    'C03': ' Added: every candidate within the safety radius - also images of the cell\'s own generator - is clipped (builder loop), the periodic box contains the images (cuboid), and every search result is handed to the builder unchanged (neighbour pipeline).',
    'C04': ' Counterexamples on the rule are completed to public-API scenarios (generators on walls, masks) and confirmed on the real tessellation.',
    'C05': ' Added: the exact tie-breaker obligations of C10.a (no overflow, determinant, sign) are regenerated here, with a ground corner-instance search when an overflow assertion is undecided; a second known finding (regular ring of co-circular generators) is re-observed natively.',
    'C06': ' Added: several candidates in sequence (loop ends early only beyond the current safety radius), neighbour pipeline (no search result dropped), face rule for shifted planes (each cell owns its periodic faces, whatever the mask). Counterexamples are confirmed against the 3^d-replicated non-periodic tessellation through the public API.',
    'C07': ' Added: the symmetric face-integral rule, and state transitions (clone / with_faces / discard_faces / VoronoiIntegrator::with_faces keep the mask, the cells and every other field).',
    'C08': ' Added: the builder loop treats candidates alike in 1D/2D/3D (several candidates; ends early only beyond the current safety radius); neighbour pipeline.',
    'C12': ' Added: offset / count are stored and returned exactly for every value below 2^48 (narrowing casts modelled exactly); faces carry symbolic area/centroid/normal (the index structure cannot depend on geometry).',
    'C13': ' Added: VoronoiFaceIntegral and AreaCentroidIntegral are the same function of the accumulator for EVERY accumulated area (finalize and collect twins); compute_cell_integral collects every tetrahedron in every dimensionality; VoronoiIntegrator::with_faces keeps the integrator.',
    'C14': ' Added: compute_cell_integral hands every tetrahedron of the decomposition to the user integral, once, in order, in 1D/2D/3D; native replays at length scales 1e-9 .. 1e5.',
    'C15': ' Added: square pyramid with a 4-valent apex (two coincident vertices), 260-gon prism (faces with more than 255 vertices), clone keeps the face data, native polytope checks on fcc / cubic lattices and on cells inside a ring of 300 generators.',
    'C16': ' Added: several candidates in sequence; the radius survives clone / with_faces / discard_faces / VoronoiIntegrator::with_faces.',
    'C17': ' Added: the loop of Iterator::next on a harness heap (every popped leaf returned once with its own distance and shift, also a second image of the same generator; inner nodes only extend the heap), the pipeline wrapping_nn_iter / nn_iter (nothing dropped or reordered); when a part cannot be encoded the statement of C17 is evaluated on real visit sequences.',
    'C18': ' Added (concrete execution through the MIR): compute_boundary on fans of 20/40 (96) removed vertices under seeded storage orders; a 1500-call (6000) init/try_extend history on one SimpleCycle against an independent successor-map model. Quick tier: plane indices 0..5 and 14..19; 62..67 in the thorough tier.',
    'C19': ' Added: Sphere::contains is a relative test at every scale; extend paths are classified by what they return; every path of from_three_points is checked.',
    'C20': ' Added: Sphere::contains (relative tolerance at every scale).',
}

NA = {
    'C09': 'rayon work-stealing schedules: Kani/CBMC do not model threads and no encoding of rayon is within reach; the sequential build is what the harnesses analyse (DESIGN.md 4)',
}

hooks_commits = subprocess.run(['git', '-C', '/repo', 'log', '--format=%h %s'], capture_output=True, text=True).stdout.strip().split('\n')
hook_shas = [l.split()[0] for l in hooks_commits if 'verif-hooks' in l]

checks = []
for p in props:
    pid = p['id']
    if pid in CHECKS:
        c = CHECKS[pid]
        checks.append({
            'property_id': pid,
            'quick_cmd': './check %s --tier quick' % pid,
            'thorough_cmd': './check %s --tier thorough' % pid,
            'evidence_file': 'evidence/%s.json' % pid,
            'replay_cmd_template': './check %s --replay {path}' % pid,
            'engine': 'mirsym+kani',
            'level_claimed': {'category': c['cat'], 'text': c['text'] + ADDED.get(pid, ''), 'design_ref': c['ref'] + (' , 7.2' if pid in ADDED else '')},
            'level_note': c['note'],
            'technique': c['tech'],
        })
na = []
for p in props:
    pid = p['id']
    if pid in CHECKS:
        continue
    na.append({'property_id': pid, 'reason': NA.get(pid, 'check planned in DESIGN.md but not built yet')})

m = {
    'version': 1,
    'setup_cmd': './setup.sh',
    'hooks': {
        'guard': 'verif-hooks',
        'enable': 'cargo feature `verif-hooks` of meshless_voronoi (enabled through the path dependency of /verif/kani and /verif/replay); Engine M reads the MIR of the unhooked crate',
        'baseline_off_cmd': 'cd /repo && cargo test --workspace --no-fail-fast --offline',
        'source_commits': hook_shas,
        'add_only': True,
    },
    'engines': [
        {'name': 'mirsym', 'path': 'mirsym/', 'serves_properties': sorted(CHECKS), 'kind_free_text': 'MIR -> SMT symbolic interpreter (Python, z3 + cvc5 cross-check), regenerates the encoding from /repo on every run'},
        {'name': 'kani', 'path': 'kani/', 'serves_properties': sorted(CHECKS), 'kind_free_text': 'Kani 0.68 / CBMC 6.11 proof harnesses over the compiled crate (feature verif-hooks)'},
        {'name': 'replay', 'path': 'replay/', 'serves_properties': sorted(CHECKS), 'kind_free_text': 'native oracle / counterexample replay binary (dev and release)'},
    ],
    'checks': checks,
    'not_applicable': na,
    'notes': 'exit codes: 0 held within bounds (decided by the solver); 1 VIOLATION (reproduced natively against the real code); 2 solver counterexample that no native replay confirmed; 3 inconclusive (encoding not buildable for the changed tree, solver unknown). When a run ends without a solver verdict (2 or 3) a fixed battery of public-API scenarios is evaluated against the statements of the property (props/oracle.py): a violation observed natively is reported as VIOLATION, observing nothing leaves the run at 2/3 - never a pass (DESIGN.md 7.3). known findings: known_findings.json; seeded changes and which checks catch them: seeded/CATCHES.md',
}
json.dump(m, open(os.path.join(V, 'MANIFEST.json'), 'w'), indent=1)
print('checks:', [c['property_id'] for c in checks], 'n/a:', [n['property_id'] for n in na])
