#!/usr/bin/env python3
"""seed_matrix.py [--tier quick] [--only C03-m1,...] [--props own|all]
Applies every seeded change under /verif/seeded/<id>/patch.diff to /repo (git apply), runs the check of the property it breaks
(and, with --props all, every registered check), records exit code / VIOLATION lines / wall time, and undoes the change
(git checkout -- .).  Results are merged into /verif/seeded/MATRIX.json.  Never run concurrently with another check: /repo is edited."""
import argparse
import json
import os
import re
import subprocess
import sys
import time

V = '/verif'
R = '/repo'


def sh(cmd, **kw):
    return subprocess.run(cmd, shell=True, capture_output=True, text=True, **kw)


def main():
    ap = argparse.ArgumentParser()
    ap.add_argument('--tier', default='quick')
    ap.add_argument('--only', default='')
    ap.add_argument('--props', default='own')
    a = ap.parse_args()
    mpath = os.path.join(V, 'seeded', 'MATRIX.json')
    matrix = json.load(open(mpath)) if os.path.exists(mpath) else {}
    seeds = sorted(d for d in os.listdir(os.path.join(V, 'seeded')) if os.path.isfile(os.path.join(V, 'seeded', d, 'patch.diff')))
    if a.only:
        seeds = [s for s in seeds if s in a.only.split(',')]
    registered = [c['property_id'] for c in json.load(open(os.path.join(V, 'MANIFEST.json')))['checks']]
    if sh('git -C %s status --porcelain --untracked-files=no' % R).stdout.strip():
        print('refusing: /repo has uncommitted changes')
        sys.exit(9)
    for s in seeds:
        meta_p = os.path.join(V, 'seeded', s, 'meta.json')
        own = json.load(open(meta_p))['property'] if os.path.exists(meta_p) else s.split('-')[0]
        props = registered if a.props == 'all' else [own]
        props = [p for p in props if p in registered]
        if not props:
            print('%s: no registered check for %s' % (s, own))
            continue
        r = sh('git -C %s apply %s/seeded/%s/patch.diff' % (R, V, s))
        if r.returncode != 0:
            print('%s: patch does not apply: %s' % (s, r.stderr.strip()[:200]))
            matrix.setdefault(s, {})['apply'] = 'failed'
            continue
        try:
            for p in props:
                t = time.time()
                o = sh('cd %s && ./check %s --tier %s' % (V, p, a.tier))
                txt = o.stdout + o.stderr
                vio = [l[:300] for l in txt.splitlines() if l.startswith('VIOLATION')]
                other = [l[:300] for l in txt.splitlines() if re.match(r'^(INCONCLUSIVE|SUSPECT)', l)]
                matrix.setdefault(s, {}).setdefault(a.tier, {})[p] = {'rc': o.returncode, 'violations': vio[:3], 'other': other[:3], 'wall_s': round(time.time() - t, 1)}
                print('%s vs %s [%s]: rc=%d %s' % (s, p, a.tier, o.returncode, (vio or other or [''])[0][:200]), flush=True)
        finally:
            sh('git -C %s checkout -- .' % R)
            # a patch may add files
            sh('git -C %s clean -fdq -- src tests examples' % R)
        json.dump(matrix, open(mpath, 'w'), indent=1, sort_keys=True)


if __name__ == '__main__':
    main()
