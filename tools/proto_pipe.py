"""prototype: whole-cell pipeline (ConvexCell::build -> VoronoiCell::from_convex_cell) from the MIR in low-dimensional configurations"""
import sys
import time
from fractions import Fraction as F

sys.path.insert(0, '/verif')
import z3
from mirsym import engine
from mirsym.interp import Agg, Var, Ref, State, Opaque, UNIT, to_z3, is_z3, Unsupported
from mirsym.models import list_iter
from props.common import Call, rvec, none, some, hyps_of
from props import facerule as FR

funcs, info = engine.load_mir('ibig')
print(info)


class R:
    functions = {}
    def add_functions(self, interp, funcs):
        pass


dim = sys.argv[1] if len(sys.argv) > 1 else 'OneD'
cv = lambda x: F(x)
anchor = Agg('DVec3', [F(0), F(-1, 2), F(-1, 2)]) if dim == 'OneD' else Agg('DVec3', [F(0), F(0), F(-1, 2)]) if dim == 'TwoD' else Agg('DVec3', [F(0), F(0), F(0)])
width = Agg('DVec3', [F(1), F(1), F(1)])
t = time.time()
c = Call(R(), funcs, r'boundary::<impl at [^>]*>::cuboid$', [anchor, width, False, FR.dimv(dim)])
st, simvol = c.single()
print('cuboid ok', time.time() - t, simvol)

gx, qx = z3.Real('gx'), z3.Real('qx')
gy, qy = z3.Real('gy'), z3.Real('qy')
gz, qz = z3.Real('gz'), z3.Real('qz')
if dim == 'OneD':
    g = Agg('DVec3', [gx, F(0), F(0)]); q = Agg('DVec3', [qx, F(0), F(0)])
    pre = [gx > 0, gx < 1, qx > 0, qx < 1, gx != qx]
elif dim == 'TwoD':
    g = Agg('DVec3', [gx, gy, F(0)]); q = Agg('DVec3', [qx, qy, F(0)])
    pre = [gx > 0, gx < 1, qx > 0, qx < 1, gy > 0, gy < 1, qy > 0, qy < 1]
else:
    g = Agg('DVec3', [gx, gy, gz]); q = Agg('DVec3', [qx, qy, qz])
    pre = [gx > 0, gx < 1, qx > 0, qx < 1, gy > 0, gy < 1, qy > 0, qy < 1, gz > 0, gz < 1, qz > 0, qz < 1]
gens = Agg('array', [engine.make_struct('src/voronoi/generator.rs', 'Generator', loc=g, id=0), engine.make_struct('src/voronoi/generator.rs', 'Generator', loc=q, id=1)])
it = list_iter([Agg('tuple', (0, none())), Agg('tuple', (1, none()))])


def exact(i, st, a, c):
    st.events.append(('exact',))
    return z3.Real('exact_sign')


ov = {'in_sphere_test_exact': exact, 'SimulationBoundary::iloc': lambda i, st, a, c: Agg('array', (0, 0, 0))}
t = time.time()
try:
    c = Call(R(), funcs, r'convex_cell::<impl at [^>]*>::build$', [g, 0, gens, it, simvol], by_ref=(2, 4), overrides=ov, pre=pre,
             interp_kw=dict(max_visits=400000, max_paths=100000))
except Unsupported as e:
    print('UNSUPPORTED', e)
    raise
print('build: %d paths, %d panics, %.1fs' % (len(c.outs), len(c.panics), time.time() - t))
cc = lambda v, nm: v.items[engine.field_index('src/voronoi/convex_cell.rs', 'ConvexCell', nm)]
for st, cell in c.outs[:5]:
    print('path pc', len(st.pc), 'events', st.events[:4])
    print('  sr', cc(cell, 'safety_radius'))
    for v in cc(cell, 'vertices').items:
        print('  v', v.items[1], z3.simplify(to_z3(v.items[0].items[0])) if is_z3(v.items[0].items[0]) else v.items[0].items[0])
for pc, msg, pst in c.panics[:5]:
    print('panic', msg)

# ---- stage 1: volume through from_convex_cell (areas uninterpreted)
from props.buildrules import rec, pcs
from mirsym import ratfun
vcf = lambda v, nm: v.items[engine.field_index('src/voronoi/voronoi_cell.rs', 'VoronoiCell', nm)]
acount = [0]
def area(i, st, a, c):
    acount[0] += 1
    return z3.Real('area_%d' % acount[0])
name = engine.find_fn(funcs, r'voronoi_cell::<impl at [^>]*>::from_convex_cell$')
tot = 0
for k, (st, cell) in enumerate(c.outs):
    if any(e[0] == 'exact' for e in st.events):
        continue
    if tot > 3: break
    tot += 1
    t = time.time()
    interp = engine.new_interp(funcs, overrides={'signed_area_tri': area}, max_visits=400000, max_paths=100000)
    s2 = st.fork()
    s2.heap[100] = cell
    s2.heap[101] = Agg('Vec', ())
    try:
        outs = interp.exec_fn(s2, name, [Ref(('H', 100)), Ref(('H', 101)), none()], {'M': 'WithoutFaces'})
    except Unsupported as e:
        print('UNSUPPORTED', e); raise
    print('path %d: from_convex_cell %d outs %d panics %.1fs' % (k, len(outs), len(interp.panics), time.time() - t))
    for s3, vc in outs[:1]:
        vol = to_z3(vcf(vc, 'volume'))
        H = pre + hyps_of(s3)
        nv = len(cc(cell, 'vertices').items)
        print('   nverts', nv, 'nfaces', len(s3.heap[101].items))
        if dim == 'OneD':
            lo = z3.If(qx < gx, (gx + qx) / 2, 0); hi = z3.If(qx > gx, (gx + qx) / 2, 1)
            ref = hi - lo
            goal = vol == ref
        else:
            import itertools, math
            kk = 2 if dim == 'TwoD' else 3
            sq = s3.sqrts[0][0]
            dl = [gx - qx, gy - qy, gz - qz][:kk]
            gg = [gx, gy, gz][:kk]; qq = [qx, qy, qz][:kk]
            nn = dl            # unnormalised inward normal
            dd = sum(a * (b + c) / 2 for a, b, c in zip(dl, gg, qq))
            tot = 0
            for v in itertools.product((0, 1), repeat=kk):
                tt = dd - sum(a * b for a, b in zip(nn, v))
                tot = tot + (-1) ** sum(v) * z3.If(tt > 0, tt ** kk, 0)
            prodn = math.prod(nn)
            goal = (1 - vol) * (math.factorial(kk) * prodn) == tot
            H = H + [prodn != 0]
        s = z3.Solver(); s.set('timeout', 60000)
        for h in H: s.add(h)
        s.add(z3.Not(goal))
        t = time.time(); r = s.check(); print('   volume identity:', r, '%.2fs' % (time.time() - t))
        s = z3.Solver(); s.set('timeout', 60000)
        f = ratfun.clear(z3.And(H + [z3.Not(goal)]))
        s.add(f)
        t = time.time(); r = s.check(); print('   volume identity (cleared):', r, '%.2fs' % (time.time() - t))
