#!/bin/bash
# try_seeded.sh <seed dir name> <PID> [tier]: apply a seeded mutation to /repo, run the check, undo it.
S=/verif/seeded/$1; P=$2; T=${3:-quick}
cd /repo && git apply $S/patch.diff || { echo "patch does not apply"; exit 9; }
cd /verif && ./check $P --tier $T > /tmp/try-$1-$P.log 2>&1; rc=$?
git -C /repo checkout -- . 
echo "$1 vs $P: rc=$rc $(grep -c '^VIOLATION' /tmp/try-$1-$P.log) violation line(s); $(grep -E '^(VIOLATION|INCONCLUSIVE|SUSPECT)' /tmp/try-$1-$P.log | head -2 | cut -c1-220)"
