//! A downstream cell integral that uses per-cell extra data (`Data = f64`).
use glam::DVec3;
use meshless_voronoi::integrals::{CellIntegral, CellIntegralWithData};
use meshless_voronoi::{ConvexCell, ConvexCellMarker};

pub struct Weighted {
    pub w: f64,
    pub acc: f64,
}

impl CellIntegral for Weighted {
    fn init<M: ConvexCellMarker>(_cell: &ConvexCell<M>) -> Self {
        Weighted { w: 1., acc: 0. }
    }
    fn collect(&mut self, v0: DVec3, _v1: DVec3, _v2: DVec3, _gen: DVec3) {
        self.acc += self.w * v0.x;
    }
    fn finalize(self) -> Self {
        self
    }
}

impl CellIntegralWithData for Weighted {
    type Data = f64;
    fn init_with_data<M: ConvexCellMarker>(_cell: &ConvexCell<M>, data: f64) -> Self {
        Weighted { w: data, acc: 0. }
    }
}
