//! A downstream crate that defines its own cell and face integrals (public API only, no verif-hooks).
use glam::DVec3;
use meshless_voronoi::integrals::{CellIntegral, FaceIntegral};
use meshless_voronoi::{ConvexCell, ConvexCellMarker, VoronoiIntegrator};

#[derive(Default)]
pub struct SecondMoment {
    pub m: f64,
}

impl CellIntegral for SecondMoment {
    fn init<M: ConvexCellMarker>(_cell: &ConvexCell<M>) -> Self {
        Self::default()
    }
    fn collect(&mut self, v0: DVec3, v1: DVec3, v2: DVec3, gen: DVec3) {
        self.m += (v0 + v1 + v2 + gen).length_squared();
    }
    fn finalize(self) -> Self {
        self
    }
}

#[derive(Clone, Default)]
pub struct Perimeter {
    pub p: f64,
}

impl FaceIntegral for Perimeter {
    fn init<M: ConvexCellMarker>(_cell: &ConvexCell<M>, _clipping_plane_idx: usize) -> Self {
        Self::default()
    }
    fn collect(&mut self, v0: DVec3, v1: DVec3, _v2: DVec3, _gen: DVec3) {
        self.p += v0.distance(v1);
    }
    fn finalize(self) -> Self {
        self
    }
}

pub fn use_them(vi: &VoronoiIntegrator<meshless_voronoi::WithoutFaces>) -> (usize, usize) {
    (vi.compute_cell_integrals::<SecondMoment>().len(), vi.compute_face_integrals_sym::<Perimeter>().len())
}
