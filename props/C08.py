"""C08 - 1D and 2D tessellations depend only on the active coordinates (mechanisms)."""
import json

import z3

from mirsym import engine, kanirun
from . import facerule as FR, buildrules as BR, geomrules as GR, nnrules

LEVEL = 'other'
EXPLANATION = ('Mechanisms by which unused coordinates are eliminated, each decided by a solver over the real code: Generator::new erases the unused '
               'coordinates for EVERY f64 bit pattern incl. NaN/inf (Kani, bit-precise); Dimensionality::vector_is_valid (Kani); anchor/width are '
               'normalised to -0.5/1.0 on unused axes and untouched on used ones, identically on the direct and the integrator route (MIR -> z3); '
               'vertex radii are measured in the active subspace; periodic images and the tripled box exist only along active axes; planes whose '
               'normal leaves the active subspace never yield a face in either face-integral variant nor in the compact tessellation. The 1D '
               'closed form and the 2D = 3D-slab equality concern the whole float pipeline and are outside.')

KANI = [
    {'name': 'generator_new_erases_unused', 'role': 'proof', 'timeout': 300, 'bounds': 'all 2^192 bit patterns of the three coordinates, all three dimensionalities'},
    {'name': 'vector_is_valid_spec', 'role': 'proof', 'timeout': 300, 'bounds': 'all f64 bit patterns'},
]


def invalid_normals_never_yield_faces(run, funcs):
    for dim in ('OneD', 'TwoD'):
        for rs, ss, ms in ((True, False, False), (True, False, True), (True, True, False), (False, False, False)):
            a = FR.run_maybe_init_face(run, funcs, FR.RuleCase(dim, rs, ss, ms))
            C = FR.constructs(a)
            run.prove('C08 face rule[%s,right=%s,shift=%s,mask=%s]: a plane whose normal has a non-zero unused component yields no face' % (dim, rs, ss, ms),
                      a['pre'] + [z3.Not(FR.valid_dim(dim, a['n']))], C, timeout=20, cross=False)


def check(run):
    funcs, info = engine.load_mir('ibig')
    run.mir_info.append(info)
    run.guard(BR.check_normalisation, funcs, 'C08')
    run.guard(GR.from_dual, funcs, 'C08')
    run.guard(nnrules.image_set, funcs, 'C08')
    run.guard(GR.cuboid, funcs, 'C08')
    run.guard(invalid_normals_never_yield_faces, funcs)
    run.guard(BR.check_face_loops, funcs, 'C08')
    run.guard(GR.build_loop_multi, funcs, 'C08')      # the builder treats candidates alike in 1D / 2D / 3D
    kanirun.run(run, 'C08', KANI, jobs=2)
    run.assume('the 1D closed form and the 2D = 3D slab equality are properties of the whole float pipeline: outside')
    return run.finish(LEVEL, EXPLANATION, trusted=['rustc -Zunpretty=mir', 'z3 5.1.0 / 4.8.12, cvc5 1.0.3', 'Kani 0.68 / CBMC 6.11', 'glam / std models of mirsym'])


def replay(path):
    d = json.load(open(path))
    k = d['kind']
    if k == 'kani_playback':
        return kanirun.replay('C08', path)
    if k == 'nn_images':
        return nnrules.replay(d)
    if k in ('normalisation', 'sym_loop'):
        return BR.replay(d)
    return GR.replay(d)
