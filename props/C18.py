"""C18 - clipping a cell is independent of vertex storage order."""
import json

from mirsym import engine
from mirsym import kanirun
from mirsym.interp import Unsupported
from . import cliprules as CR

LEVEL = 'other'
EXPLANATION = ('(a) Kani/CBMC: one step of SimpleCycle::try_extend from an ARBITRARY valid cycle over 6 planes (symbolic successor array, also with plane '
               'indices 14..19; 62..67 in the thorough tier) keeps the cycle valid, changes its length by exactly one in the two documented configurations and leaves the state '
               'untouched on Err - an inductive step that covers histories of any length. (b) Engine M executes the real clip_by_plane + '
               'compute_boundary + SimpleCycle MIR on catalogue cells (the initial cube cell with the dual triples read from the MIR of '
               'ConvexCell::init, and a tetrahedron) with a SYMBOLIC clipping plane (real HalfSpace::clip; z3 admits only sign patterns an affine '
               'function can produce) and an uninterpreted exact-predicate sign per vertex: on every feasible path a vertex is removed iff clip < 0 '
               'or (clip inside the error band and exact < 0); new vertices are (cur, next, new plane) along the boundary cycle; the result is a '
               'closed polytope and depends only on the removed set, identically for seeded permutations of the vertex array and rotations of the '
               'dual triples. "Same volume" (float sums) and cells beyond the catalogue are outside.')

KANI = [
    {'name': 'cycle_step_base0', 'role': 'proof', 'timeout': 900, 'bounds': 'arbitrary valid cycle over 6 planes (indices 0..5), arbitrary distinct a,b,c; unwind 8'},
    {'name': 'cycle_step_base14', 'role': 'proof', 'timeout': 1200, 'bounds': 'same with plane indices 14..19 (20 planes in the cell); unwind 22'},
]
KANI_THOROUGH = [
    {'name': 'cycle_step_base62', 'role': 'proof', 'timeout': 3600, 'bounds': 'same with plane indices 62..67 (68 planes in the cell); unwind 70'},
]


def check(run):
    funcs, info = engine.load_mir('ibig')
    run.mir_info.append(info)
    try:
        duals = CR.init_duals_from_mir(funcs)
        cube = [(d, CR.cube_loc(d)) for d in duals]
        seeds = [run.seed * 100 + k for k in range(1, 4 if run.tier == 'quick' else 12)]
        CR.check_cell(run, funcs, 'C18', 'initial cube cell', CR.CUBE_PLANES, cube, seeds, max_ties=1 if run.tier == 'quick' else 3, procs=12)
        tet_planes = [((1, 0, 0), (0, 0, 0)), ((0, 1, 0), (0, 0, 0)), ((0, 0, 1), (0, 0, 0)), ((-1, -1, -1), (1, 0, 0))]
        tet = [((0, 2, 1), (0, 0, 0)), ((0, 1, 3), (0, 0, 1)), ((1, 2, 3), (1, 0, 0)), ((0, 3, 2), (0, 1, 0))]
        CR.check_cell(run, funcs, 'C18', 'tetrahedron', tet_planes, tet, seeds + [run.seed * 100 + 50 + k for k in range(4)], loc=(CR.F(1, 5), CR.F(1, 5), CR.F(1, 5)))
        run.bound('catalogue: initial cube cell (8 vertices, duals from the MIR of ConvexCell::init) and a tetrahedron; symbolic clipping plane; %d seeded storage orders/rotations each' % (len(seeds) + 1))
    except (engine.Inconclusive, Unsupported) as e:
        # the MIR-level part could not be encoded for this tree: recorded as inconclusive; the Kani part below still runs
        run.inconclusive.append('MIR-level clip_by_plane obligations not encoded: %s' % str(e)[:300])
    run.guard(CR.fan_boundary, funcs, 'C18', (20, 40) if run.tier == 'quick' else (20, 40, 96), 8 if run.tier == 'quick' else 24)
    run.guard(CR.cycle_long_history, funcs, 'C18', 1500 if run.tier == 'quick' else 6000)
    run.guard(CR.prism_cut, funcs, 'C18', 24 if run.tier == 'quick' else 72)
    kanirun.run(run, 'C18', KANI + (KANI_THOROUGH if run.tier == 'thorough' else []), jobs=3)
    run.assume('float leaves (intersect_planes of the new vertices, safety radius) abstracted: equal vertex sets give equal volumes only up to rounding')
    return run.finish(LEVEL, EXPLANATION, trusted=['rustc -Zunpretty=mir', 'z3 5.1.0', 'Kani 0.68 / CBMC 6.11', 'std Vec/slice/iterator models of mirsym'])


def replay(path):
    d = json.load(open(path))
    if d['kind'] == 'kani_playback':
        return kanirun.replay('C18', path)
    return CR.replay(d)
