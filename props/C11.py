"""C11 - all buildable big-integer backends give the same predicate: the C10.a obligations regenerated
from a MIR dump per backend feature, each shown equal to the same reference."""
import os
import re

from mirsym import engine
from . import insphere

LEVEL = 'other'
EXPLANATION = ('The MIR of in_sphere_test_exact is dumped once per backend feature (ibig, dashu, malachite, num_bigint) from the current '
               'tree and executed symbolically with that backend\'s six big-integer operations read as Z and its own sign extraction '
               '(signum().to_f64(), .value(), match Ordering, match Sign) taken from the MIR; each backend is shown equal to the same '
               '24-term Leibniz reference on [0,2^52)^15 and to return sgn(D) for every integer D, hence the backends agree pairwise. '
               'rug cannot be built here (GMP).')

BACKENDS = ['ibig', 'dashu', 'malachite', 'num_bigint']


def structural_side_check(run):
    """reported, not deciding: cfg(feature = <backend>) occurs only in geometry.rs / lib.rs"""
    hits = {}
    for root, dirs, files in os.walk(os.path.join(engine.REPO, 'src')):
        for f in files:
            p = os.path.join(root, f)
            n = len(re.findall(r'feature\s*=\s*"(?:ibig|dashu|malachite|num_bigint|rug|malachite-nz|malachite-base)"', open(p).read()))
            if n:
                hits[os.path.relpath(p, engine.REPO)] = n
    run.notes.append('backend cfg sites: %r' % hits)
    extra = [k for k in hits if k not in ('src/geometry.rs', 'src/lib.rs')]
    if extra:
        run.inconclusive.append('backend-dependent code outside geometry.rs/lib.rs: %r (a tessellation could differ between backends through '
                                'code this check does not encode)' % extra)


def check(run):
    backends = BACKENDS
    run.bound('backends checked this run: %s' % ', '.join(backends))
    from mirsym.interp import Unsupported
    for b in backends:
        try:
            cands, P, code_det = insphere.check_backend(run, b, 'C11[%s]' % b, thorough=(run.tier == 'thorough'))
        except (Unsupported, engine.Inconclusive) as e:
            # this backend's exact path contains an operation outside the big-integer model (floating point, bit tricks): the encoding cannot be
            # built.  No solver verdict for it - unless the real function, built with that backend, already disagrees with the exact reference
            # on adversarial samples (ties, tight clusters, layered coordinates with common trailing zero bits, large co-spherical sets)
            bad = insphere.native_vs_reference(run.seed, 6000, backend=b)
            if bad:
                insphere.confirm_and_report(run, 'C11', bad[:3], 'C11[%s] (encoding not buildable: %s)' % (b, str(e)[:80]), backend=b)
            else:
                run.inconclusive.append('C11[%s]: %s' % (b, str(e)[:300]))
            continue
        if cands:
            # native replay against a build of the replay crate with that backend feature
            insphere.confirm_and_report(run, 'C11', cands, 'C11[%s]' % b, backend=b)
        elif any(('C11[%s]' % b) in x for x in run.inconclusive) and not run.violations:
            bad = insphere.native_vs_reference(run.seed, 6000, backend=b)
            if bad:
                insphere.confirm_and_report(run, 'C11', bad[:3], 'C11[%s] (obligations undecided)' % b, backend=b)
    run.guard(structural_side_check)
    run.assume('each big-integer crate implements Z exactly (their arithmetic is not encoded)')
    run.assume('rug backend not buildable in this sandbox: outside the claim')
    return run.finish(LEVEL, EXPLANATION, trusted=['rustc -Zunpretty=mir', 'z3 5.1.0 / 4.8.12, cvc5 1.0.3', 'per-backend model table of mirsym'])


def replay(path):
    """native replay against a build of the named backend (replay crate rebuilt with that feature)"""
    return insphere.replay_file(path)
