"""C11 - all buildable big-integer backends give the same predicate: the C10.a obligations regenerated
from a MIR dump per backend feature, each shown equal to the same reference."""
import os
import re

from mirsym import engine
from . import insphere

LEVEL = 'other'
EXPLANATION = ('The MIR of in_sphere_test_exact is dumped once per backend feature (ibig, dashu, malachite, num_bigint) from the current '
               'tree and executed symbolically with that backend\'s six big-integer operations read as Z and its own sign extraction '
               '(signum().to_f64(), .value(), match Ordering, match Sign) taken from the MIR; each backend is shown equal to the same '
               '24-term Leibniz reference on [0,2^52)^15 and to return sgn(D) for every integer D, hence the backends agree pairwise. '
               'rug cannot be built here (GMP).')

BACKENDS = ['ibig', 'dashu', 'malachite', 'num_bigint']


def structural_side_check(run):
    """reported, not deciding: cfg(feature = <backend>) occurs only in geometry.rs / lib.rs"""
    hits = {}
    for root, dirs, files in os.walk(os.path.join(engine.REPO, 'src')):
        for f in files:
            p = os.path.join(root, f)
            n = len(re.findall(r'feature\s*=\s*"(?:ibig|dashu|malachite|num_bigint|rug|malachite-nz|malachite-base)"', open(p).read()))
            if n:
                hits[os.path.relpath(p, engine.REPO)] = n
    run.notes.append('backend cfg sites: %r' % hits)
    extra = [k for k in hits if k not in ('src/geometry.rs', 'src/lib.rs')]
    if extra:
        run.inconclusive.append('backend-dependent code outside geometry.rs/lib.rs: %r (a tessellation could differ between backends through '
                                'code this check does not encode)' % extra)


def check(run):
    if run.tier == 'quick':
        others = BACKENDS[1:]
        backends = ['ibig', others[run.seed % len(others)]]
    else:
        backends = BACKENDS
    run.bound('backends checked this run: %s (thorough checks all four)' % ', '.join(backends))
    for b in backends:
        cands, P, code_det = insphere.check_backend(run, b, 'C11[%s]' % b, thorough=(run.tier == 'thorough'))
        if cands:
            if b == 'ibig':
                insphere.confirm_and_report(run, 'C11', cands, 'C11[%s]' % b)
            else:
                # only the ibig build is available natively; a differing polynomial in another backend is reported through
                # the exact reference evaluated on the encoding (validated for ibig), not as a native replay
                bad = [c for c in cands if insphere.py_sign(insphere.eval_term(code_det, P, c)) != insphere.exact_ref_sign(c)]
                if bad:
                    path = engine.save_replay('C11', {'kind': 'insphere_exact_backend', 'backend': b, 'points': bad[0],
                                                      'expected_sign': insphere.exact_ref_sign(bad[0])})
                    ok = replay(path)
                    if ok == 1:
                        run.violation('C11[%s]: predicate sign differs from the lifted determinant at %r' % (b, bad[0]), path)
                    else:
                        run.suspect.append('C11[%s]: encoding disagrees with the reference at %r but the native %s build does not' % (b, bad[0], b))
                else:
                    run.inconclusive.append('C11[%s]: determinant polynomial differs from the reference, no sign disagreement found' % b)
    structural_side_check(run)
    run.assume('each big-integer crate implements Z exactly (their arithmetic is not encoded)')
    run.assume('rug backend not buildable in this sandbox: outside the claim')
    return run.finish(LEVEL, EXPLANATION, trusted=['rustc -Zunpretty=mir', 'z3 5.1.0 / 4.8.12, cvc5 1.0.3', 'per-backend model table of mirsym'])


def replay(path):
    """native replay against a build of the named backend (replay crate rebuilt with that feature)"""
    import json, subprocess
    d = json.load(open(path))
    if d.get('kind') == 'insphere_exact':
        return insphere.replay_file(path)
    b = d['backend']
    tgt = os.path.join(engine.CACHE, 'target-replay-%s' % b)
    cmd = ['cargo', 'build', '--offline', '--target-dir', tgt, '--no-default-features', '--features', 'backend-' + b]
    p = subprocess.run(cmd, cwd=engine.REPLAY_DIR, env=engine.ENV, capture_output=True, text=True)
    if p.returncode != 0:
        print(p.stderr[-2000:])
        return 3
    c = d['points']
    line = 'insphere_exact ' + ' '.join(str(x) for nm in insphere.NAMES for x in c[nm])
    out = subprocess.run([os.path.join(tgt, 'debug', 'vreplay')], input=line + '\n', capture_output=True, text=True).stdout.split()
    n = int(float(out[1])) if out and out[0] == 'ok' else None
    print('native[%s]=%r expected=%d' % (b, n, d['expected_sign']))
    return 1 if n != d['expected_sign'] else 0
