"""C05 - construction is total and robust on boundary and degenerate inputs (the leaf guards)."""
import json
import os

import z3

from mirsym import engine, kanirun
from . import geomrules as GR

LEVEL = 'other'
EXPLANATION = ('Totality of the leaf guards, decided by solvers over the real code: the position -> integer-grid map stays inside [1,2) / [0,2^52) for every '
               'position the algorithm can query, bit-precisely (Kani/CBMC on cuboid + iloc with iloc\'s debug assertions enabled) and over the reals '
               'for every box (MIR -> z3); HalfSpace::new yields an error bound >= EPSILON (1 + sum|n_i p_i|) > 0 and clip returns 0 exactly inside '
               'that band, else the sign; the wall mirror image is the exact reflection; ConvexCell::build panics ("Degenerate point set") only for '
               'a candidate at distance exactly 0. Global consistency of tie decisions between cells is NOT claimed: a genuine defect in that area '
               '(generators exactly on a wall) is listed in known_findings.json and re-observed natively by this check.')

BND = 'one symbolic axis (others constant); |anchor| <= 2^20, 2^-10 <= width <= 2^20; full f64; iloc debug assertions enabled'
KANI_QUICK = [
    {'name': 'iloc_x_box', 'role': 'proof', 'timeout': 900, 'bounds': BND + '; position in the closed box [a, a+w]'},
    {'name': 'iloc_x_above', 'role': 'proof', 'timeout': 1200, 'bounds': BND + '; position in [a+w, a+2w] (mirror images through the upper wall, incl. the image of a generator on the lower wall)'},
    {'name': 'iloc_x_below', 'role': 'proof', 'timeout': 1200, 'bounds': BND + '; position in [a-w-h, a], 4h <= w (mirror images through the lower wall, with margin)'},
    {'name': 'halfspace_new_errb_positive_axis', 'role': 'proof', 'timeout': 300, 'bounds': 'n = (nx,0,0), p = (px,0,0), all finite |.| <= 1e150'},
    {'name': 'iloc_witness', 'role': 'witness', 'timeout': 600, 'bounds': 'vacuity witness of the box assumptions'},
]
KANI_THOROUGH = KANI_QUICK + [
    {'name': 'iloc_%s_%s' % (ax, seg), 'role': 'proof', 'timeout': 2400, 'bounds': BND + '; axis %s, segment %s' % (ax, seg)}
    for ax in ('y', 'z') for seg in ('below', 'box', 'above')
] + [
    {'name': 'iloc_periodic_x_%s' % seg, 'role': 'proof', 'timeout': 2400, 'bounds': BND + '; periodic (tripled box A = a-w, W = 3w), segment %s' % seg}
    for seg in ('below', 'box', 'above')
]


def known_findings(run):
    """re-observe the listed genuine defects natively; anything else is reported normally"""
    for k in engine.load_known('C05'):
        path = os.path.join(engine.VERIF, k['input'])
        d = json.load(open(path))
        bad = replay_build(d)
        if bad:
            run.known_seen.append('%s: %s' % (k['key'], bad))


def replay_build(d, profile='debug'):
    dim = d['dim']
    line = 'build %d %d %s %s 0 %d %s' % (dim, 1 if d['periodic'] else 0, ' '.join(engine.f2s(x) for x in d['anchor']), ' '.join(engine.f2s(x) for x in d['width']),
                                          len(d['generators']), ' '.join(' '.join(engine.f2s(x) for x in g) + ' 0' for g in d['generators']))
    o = engine.native([line], profile)[0]
    if o[0] == 'panic':
        return 'construction panics: ' + ' '.join(o[1:12])
    return None


def exact_tie_breaker(run):
    """'Ties are resolved by exact arithmetic': the exact predicate of the ibig build computes the lifted determinant without overflow on the
    whole grid and returns its sign (the obligations of C10.a, regenerated here because a tie-breaker that is wrong only on rare inputs -
    tight clusters, exact ties - shows up as inconsistent local geometry, i.e. as a C05 failure)"""
    from mirsym.interp import Unsupported
    from . import insphere
    try:
        cands, P, code_det = insphere.check_backend(run, 'ibig', 'C05 exact tie-breaker', thorough=False)
        insphere.confirm_and_report(run, 'C05', cands, 'C05 exact tie-breaker')
    except Unsupported as e:
        bad = insphere.native_vs_reference(run.seed, 3000)
        if bad:
            insphere.confirm_and_report(run, 'C05', bad[:3], 'C05 exact tie-breaker (encoding not buildable: %s)' % str(e)[:80])
        else:
            run.inconclusive.append('C05 exact tie-breaker: %s' % e)


def check(run):
    funcs, info = engine.load_mir('ibig')
    run.mir_info.append(info)
    run.guard(GR.halfspace_new_and_clip, funcs, 'C05')
    run.guard(GR.cuboid, funcs, 'C05')
    run.guard(GR.right_loc, funcs, 'C05')
    run.guard(GR.build_loop, funcs, 'C05')
    run.guard(exact_tie_breaker)
    run.guard(GR.intersect_guard, funcs, 'C05')    # panic site geometry.rs: only for exactly dependent normals
    kanirun.run(run, 'C05', KANI_QUICK if run.tier == 'quick' else KANI_THOROUGH, jobs=12)
    run.guard(known_findings)
    run.assume('bit-precise claim: positions in [A - W - h, A + 2W] as computed in f64; a mirror image that rounding pushes a few ulps above A + 2W is covered only by the real-arithmetic obligation (margin W/8)')
    run.assume('global consistency of tie decisions, termination of the whole build and the det != 0 assert of intersect_planes on near-parallel bisectors are outside the claim')
    return run.finish(LEVEL, EXPLANATION, trusted=['rustc -Zunpretty=mir', 'z3 5.1.0 / 4.8.12, cvc5 1.0.3', 'Kani 0.68 / CBMC 6.11 (IEEE-754 model)'])


def replay(path):
    d = json.load(open(path))
    if d['kind'] == 'kani_playback':
        return kanirun.replay('C05', path)
    if d['kind'] == 'insphere_exact':
        from . import insphere
        return insphere.replay_file(path)
    if d['kind'] == 'build':
        bad = replay_build(d)
        print(bad)
        return 1 if bad else 0
    return GR.replay(d)
