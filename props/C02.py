"""C02 - cells tile the domain (bounded: two generators / one clip; unit thickness of the unused axes)."""
import json

from mirsym import engine
from . import cellrules as CL, geomrules as GR, buildrules as BR

LEVEL = 'other'
EXPLANATION = ('Bounded claim decided from the MIR: for the initial box cell clipped by an arbitrary plane (real cuboid, init, HalfSpace::new, '
               'clip_by_plane, tetrahedral decomposition, VolumeIntegral; symbolic normal and point) the computed volume equals the closed-form volume of '
               'box /\\ half-space on every path, and the closed forms of the two sides of the plane add up to the box volume for every removed-corner '
               'pattern and sign pattern of the normal - hence the two cells of any two generators tile the box; each is positive (thorough tier). The '
               'measure of a 1D / 2D box is a length / area because the unused anchor / width components are normalised to -0.5 / 1 on both routes, and '
               'the periodic box is tripled exactly on the active axes (box obligations). More than two generators and periodic sums are outside (they '
               'need a second clip on symbolic vertices).')


def check(run):
    funcs, info = engine.load_mir('ibig')
    run.mir_info.append(info)
    quick = run.tier == 'quick'
    run.guard(CL.single_clip, funcs, 'C02', (0,) if quick else (0, 1), 7, True, not quick, (1, 7) if quick else (1, 2, 6, 7))
    run.guard(BR.check_normalisation, funcs, 'C02')
    run.guard(GR.cuboid, funcs, 'C02')
    run.guard(GR.build_loop, funcs, 'C02')          # no candidate within the safety radius is skipped (skipped neighbours make cells overlap)
    run.assume('f64 read as exact reals; all three normal components non-zero; no box corner inside the float error band of the plane')
    return run.finish(LEVEL, EXPLANATION, trusted=['rustc -Zunpretty=mir', 'z3 5.1.0 / 4.8.12 (portfolio on the identities)', 'glam / std models of mirsym'])


def replay(path):
    d = json.load(open(path))
    if d['kind'] in ('clip_plane', 'clip_plane_family'):
        return CL.replay(d)
    if d['kind'] == 'normalisation':
        return BR.replay(d)
    return GR.replay(d)
