"""Extraction of the face-construction decision rules from the MIR (shared by C03, C07, C13, C04, C08).

* `VoronoiCell::from_convex_cell::{closure#1}` (maybe_init_face) with its nested mask closure, run on one
  symbolic clipping plane of a symbolic cell;
* the loop bodies of `ConvexCell::compute_face_integrals` / `compute_face_integrals_sym` run on a harness list of
  tetrahedra (the float-heavy `decompose()` is replaced by that list; `collect` is a recorder).

Discriminants (right = None/Some, shift = None/Some, mask = None/Some, dimensionality) are enumerated; cell
index, neighbour index, mask contents (uninterpreted array), mask length and the plane normal are symbolic and
decided by the solver."""
import re
from fractions import Fraction

import z3

from mirsym import engine
from mirsym.engine import Inconclusive
from mirsym.interp import Agg, Var, Ref, State, SymArr, Opaque, UNIT, to_z3, is_z3, Unsupported
from .common import Call, rvec, none, some, hyps_of

DIMS = ('OneD', 'TwoD', 'ThreeD')


def dimv(name):
    return Var(name, (), 'Dimensionality')


def half_space(n, p, right, shift, d=None, errb=None):
    plane = engine.make_struct('src/geometry.rs', 'Plane', n=n, p=p)
    return engine.make_struct('src/voronoi/half_space.rs', 'HalfSpace', plane=plane,
                              d=d if d is not None else z3.Real('hs_d'), errb=errb if errb is not None else z3.Real('hs_errb'),
                              right_idx=right, shift=shift)


def convex_cell(idx, loc, planes, dim, vertices=()):
    return engine.make_struct('src/voronoi/convex_cell.rs', 'ConvexCell', idx=idx, loc=loc,
                              clipping_planes=Agg('Vec', planes), vertices=Agg('Vec', vertices),
                              faces=none(), face_vertex_connections=none(), boundary=Opaque('SimpleCycle'),
                              safety_radius=z3.Real('cell_sr'), dimensionality=dimv(dim), _phantom=Agg('zst:PhantomData', ()))


def valid_dim(dim, n):
    x, y, z = n.items
    if dim == 'OneD':
        return z3.And(to_z3(y) == 0, to_z3(z) == 0)
    if dim == 'TwoD':
        return to_z3(z) == 0
    return z3.BoolVal(True)


def capture_order(f, names):
    """order of the closure's captures, read from its `debug` lines"""
    out = {}
    for nm in names:
        txt = f.debug.get(nm)
        if txt is None:
            raise Inconclusive('closure capture %s not found in debug info' % nm)
        m = re.search(r'\(\*?_1\)?\.(\d+):', txt) or re.search(r'_1\)\.(\d+)', txt) or re.search(r'_1\.(\d+)', txt)
        if not m:
            raise Inconclusive('cannot read capture index of %s from %r' % (nm, txt))
        out[nm] = int(m.group(1))
    return out


class RuleCase:
    """one enumerated discriminant combination"""

    def __init__(self, dim, right_some, shift_some, mask_some, pre_some=False):
        self.dim, self.right_some, self.shift_some, self.mask_some, self.pre_some = dim, right_some, shift_some, mask_some, pre_some

    def __repr__(self):
        return 'dim=%s right=%s shift=%s mask=%s' % (self.dim, 'Some' if self.right_some else 'None', 'Some' if self.shift_some else 'None',
                                                     'Some' if self.mask_some else 'None')


def run_maybe_init_face(run, funcs, case, tag=''):
    """Symbolically execute the closure for one plane.  Returns dict with the symbols and, per outcome,
    (path condition, constructed?, recorded face or None)."""
    idx = z3.Int('idx' + tag)
    j = z3.Int('j' + tag)
    nmask = z3.Int('nmask')
    maskf = z3.Function('mask', z3.IntSort(), z3.BoolSort())
    n = rvec('n' + tag)
    p = rvec('p' + tag)
    shift = rvec('s' + tag)
    right = some(j) if case.right_some else none()
    sh = some(shift) if case.shift_some else none()
    loc = rvec('loc' + tag)
    cell = convex_cell(idx, loc, [half_space(n, p, right, sh)], case.dim)
    name = engine.find_fn(funcs, r'from_convex_cell::\{closure#1\}$')
    f = funcs[name]
    caps = {}
    for nm_ in ('convex_cell', 'idx', 'mask'):
        try:
            caps.update(capture_order(f, [nm_]))
        except Inconclusive:
            pass                # a rule that does not look at this value simply does not capture it
    if 'convex_cell' not in caps:
        raise Inconclusive('the face rule closure does not capture the cell')
    interp = engine.new_interp(funcs)
    st = State()
    nn_ = [to_z3(x) for x in n.items]
    pre = [idx >= 0, j >= 0, nmask > idx, nmask > j, nn_[0] * nn_[0] + nn_[1] * nn_[1] + nn_[2] * nn_[2] > 0]     # plane normals are non-zero
    if not case.shift_some:
        pre.append(idx != j)        # an unshifted plane separates two different cells; a shifted one may belong to an image of the cell itself
    st.pc.extend(pre)
    st.heap[1] = cell
    st.heap[2] = idx
    st.heap[3] = SymArr(maskf, nmask)
    st.heap[4] = some(Ref(('H', 3))) if case.mask_some else none()
    capvals = [None] * len(caps)
    capvals[caps['convex_cell']] = Ref(('H', 1))
    if 'idx' in caps:
        capvals[caps['idx']] = Ref(('H', 2))
    if 'mask' in caps:
        capvals[caps['mask']] = Ref(('H', 4))
    st.heap[5] = Agg('closure', capvals)
    st.heap[6] = none() if not case.pre_some else some(Agg('VoronoiFace', (Opaque('existing'),)))
    outs = interp.exec_fn(st, name, [Ref(('H', 5)), Ref(('H', 6)), 0], {'M': 'WithoutFaces'})
    run.add_functions(interp, funcs)
    res = []
    for s, v in outs:
        face = s.heap[6]
        res.append((s, face.name == 'Some', face.items[0] if face.name == 'Some' else None))
    for pc, msg, pst in interp.panics:
        # the only legitimate panic is the mask bounds check, excluded by nmask > j
        run.prove('face rule %r: panic path unreachable (%s)' % (case, msg[:40]), list(pc), True, timeout=20, cross=False)
    return {'idx': idx, 'j': j, 'nmask': nmask, 'mask': maskf, 'n': n, 'p': p, 'shift': shift, 'loc': loc, 'pre': pre, 'outs': res,
            'case': case}


def constructs(r):
    """z3 formula: the closure constructs a face (disjunction of the path conditions of the constructing paths)"""
    cs = []
    for s, made, face in r['outs']:
        if made:
            cs.append(z3.And([c for c in s.pc if not isinstance(c, bool)] + [z3.BoolVal(True)]))
    return z3.Or(cs) if cs else z3.BoolVal(False)


def face_fields(face):
    """(left, right, shift, normal) of a recorded VoronoiFace value (struct layouts read from the source)"""
    inner = face.items[engine.field_index('src/voronoi/voronoi_face.rs', 'VoronoiFace', 'inner')]
    fi = lambda nm: inner.items[engine.field_index('src/voronoi/integrals.rs', 'FaceIntegrator', nm)]
    integral = fi('integral')
    normal = integral.items[engine.field_index('src/voronoi/voronoi_face.rs', 'VoronoiFaceIntegral', 'normal')]
    area = integral.items[engine.field_index('src/voronoi/voronoi_face.rs', 'VoronoiFaceIntegral', 'area')]
    centroid = integral.items[engine.field_index('src/voronoi/voronoi_face.rs', 'VoronoiFaceIntegral', 'centroid')]
    return fi('left'), fi('right'), fi('shift'), normal, area, centroid


def native_face_rule(idx, dim, right, shift, normal, mask, profile='debug'):
    """run the real from_convex_cell on a tetrahedral cell whose plane 0 carries the labels; returns the list of
    faces [(left, right, shift?, normal)] that plane 0..3 produced (plane 0 first if constructed)"""
    def plane(right, shift, normal):
        s = (str(right) if right is not None else '-') + ' '
        s += ('1 %s %s %s ' % tuple(engine.f2s(x) for x in shift)) if shift is not None else '0 '
        s += ('1 %s %s %s' % tuple(engine.f2s(x) for x in normal)) if normal is not None else '0'
        return s
    d = {'OneD': 1, 'TwoD': 2, 'ThreeD': 3}[dim]
    # planes 1..3 are walls with valid default normals only in 3D; we only look for the face of plane 0
    line = 'face_rule %d %d %s %s %s %s ' % (idx, d, plane(right, shift, normal), plane(None, None, None), plane(None, None, None), plane(None, None, None))
    if mask is None:
        line += '0 0'
    else:
        line += '1 %d %s' % (len(mask), ' '.join('1' if b else '0' for b in mask))
    o = engine.native([line], profile)[0]
    if o[0] != 'ok':
        return None
    toks = o[1:]
    nfaces = int(toks[1])
    faces = []
    k = 2
    for _ in range(nfaces):
        left = int(toks[k]); k += 1
        r = None if toks[k] == '-' else int(toks[k]); k += 1
        if toks[k] == '1':
            sh = tuple(float(x) for x in toks[k + 1:k + 4]); k += 4
        else:
            sh = None; k += 1
        nrm = tuple(float(x) for x in toks[k:k + 3]); k += 3
        faces.append((left, r, sh, nrm))
    return faces
