"""C14 - custom integrals receive an exact signed decomposition of the cell (alignment + local exactness)."""
import json
import os
import subprocess
from fractions import Fraction

import z3

from mirsym import engine
from mirsym.engine import Inconclusive
from mirsym.interp import Agg, Var, Ref, State, Opaque, UNIT, to_z3, is_z3
from mirsym.models import dot, cross
from .common import Call, rvec, none, some, hyps_of, zdot, vsub, vadd, side_obligations
from .buildrules import rec, pcs
from . import facerule as FR, buildrules as BR

LEVEL = 'other'
EXPLANATION = ('(0) decided by the compiler, reported separately: a downstream crate that implements CellIntegral and FaceIntegral through the public API '
               'must type-check (it did not before the marker trait was exported); a downstream CellIntegralWithData with Data != () does NOT type-check '
               '(E0119, listed in known_findings.json). (1) Engine M, per-cell data alignment: the three *_with_data methods of VoronoiIntegrator are executed '
               'from the MIR on 3 cells under every presence pattern with symbolic data: cell k receives data[k], results come in index order of the '
               'constructed cells. (2) every base triangle that DecompositionWithoutFaces emits for a vertex lies in the plane of the emitted plane_idx and ends '
               'at the vertex (symbolic vertex and planes, z3 over the reals). (3) the built-in collectors integrate 1 and x exactly per signed '
               'tetrahedron / triangle. (4) each tetrahedron reaches the integrator of its own plane exactly once in both face loops. That the signed '
               'tetrahedra sum to the cell is a global fact of the float pipeline and is outside.')


def compile_checks(run):
    """rustc's verdict on downstream implementability"""
    tgt = os.path.join(engine.CACHE, 'target-downstream')
    res = {}
    for crate in ('ok', 'withdata'):
        d = os.path.join(engine.VERIF, 'downstream', crate)
        lock = os.path.join(engine.REPO, 'Cargo.lock')
        if os.path.exists(lock):
            import shutil
            shutil.copy(lock, os.path.join(d, 'Cargo.lock'))
        p = subprocess.run(['cargo', 'check', '--offline', '--target-dir', tgt], cwd=d, env=engine.ENV, capture_output=True, text=True)
        errs = sorted(set(__import__('re').findall(r'error\[(E\d+)\]', p.stderr)))
        res[crate] = (p.returncode, errs, p.stderr[-1500:])
    rc, errs, txt = res['ok']
    run.obligations.append({'name': 'C14.0 a downstream crate implementing CellIntegral and FaceIntegral type-checks (rustc)', 'expect': 'unsat',
                            'verdict': 'unsat' if rc == 0 else 'sat', 'solver': 'rustc (cargo check of /verif/downstream/ok)', 'solver_s': 0.0, 'errors': errs})
    if rc != 0:
        if errs and set(errs) <= {'E0405', 'E0603', 'E0432', 'E0412', 'E0425', 'E0433', 'E0446', 'E0445'}:
            path = engine.save_replay('C14', {'kind': 'downstream_compile', 'crate': 'ok', 'errors': errs})
            run.violation('C14 a downstream crate cannot implement CellIntegral / FaceIntegral: rustc %r (the bound ConvexCellMarker in the trait signatures is not nameable)' % errs, path)
        else:
            run.inconclusive.append('downstream crate does not build for another reason: %s' % txt[-400:])
    rc, errs, txt = res['withdata']
    if rc != 0 and 'E0119' in errs:
        for k in engine.load_known('C14'):
            if k['key'] == 'withdata-unimplementable':
                run.known_seen.append('%s: rustc E0119 for /verif/downstream/withdata (impl CellIntegralWithData<Data = f64>)' % k['key'])
                break
        else:
            path = engine.save_replay('C14', {'kind': 'downstream_compile', 'crate': 'withdata', 'errors': errs})
            run.violation('C14 a downstream CellIntegralWithData with Data = f64 is rejected by rustc (E0119: conflicts with the blanket impl)', path)


def data_alignment(run, funcs):
    """compute_{cell,face,face_sym}_integrals_with_data: cell k gets data[k]; results in index order"""
    methods = [('compute_cell_integrals_with_data', 'convex_cell::ConvexCell::compute_cell_integral', 'cell'),
               ('compute_face_integrals_with_data', 'convex_cell::ConvexCell::compute_face_integrals', 'face'),
               ('compute_face_integrals_sym_with_data', 'convex_cell::ConvexCell::compute_face_integrals_sym', 'face')]
    data = [z3.Int('data%d' % k) for k in range(3)]
    n_ok = 0
    native_done = []
    for meth, inner, kind in methods:
        name = engine.find_fn(funcs, r'voronoi::<impl at [^>]*>::%s$' % meth)
        for present in [(a, b, c) for a in (0, 1) for b in (0, 1) for c in (0, 1)]:
            for ndata in (3, 2):
                def recorder(i, st, a, c):
                    cell = i.deref_read(st, a[0])
                    k = cell.items[0]
                    st.events.append(('integral', k, a[1]))
                    r = Agg('Res', (k, a[1]))
                    return r if kind == 'cell' else Agg('Vec', (r, Agg('Res', (k, a[1]))))
                cells = [some(Agg('CellK', (k,))) if present[k] else none() for k in range(3)]
                integ = engine.make_struct('src/voronoi.rs', 'VoronoiIntegrator', cells=Agg('Vec', cells), cell_is_active=Agg('Vec', [bool(x) for x in present]),
                                           anchor=rvec('anchor'), width=rvec('width'), dimensionality=FR.dimv('ThreeD'), periodic=False)
                interp = engine.new_interp(funcs, overrides={inner: recorder})
                st = State()
                st.heap[1] = integ
                st.heap[2] = Agg('array', data[:ndata])
                outs = interp.exec_fn(st, name, [Ref(('H', 1)), Ref(('H', 2))], {'M': 'WithoutFaces', 'I': 'RecI', 'D': 'usize'})
                run.add_functions(interp, funcs)
                if len(outs) != 1:
                    run.suspect.append('C14 %s: %d paths' % (meth, len(outs)))
                    continue
                st2, v = outs[0]
                exp = [k for k in range(min(3, ndata)) if present[k]]
                got = [(r.items[0], r.items[1]) for r in v.items]
                mult = 1 if kind == 'cell' else 2
                ok = len(got) == mult * len(exp)
                conds = []
                if ok:
                    for n, (k, d) in enumerate(got):
                        ek = exp[n // mult]
                        ok = ok and (k == ek)
                        conds.append(to_z3(d) == data[ek])
                if not ok:
                    pl = {'kind': 'withdata_alignment'}
                    bad = check_withdata_native(pl) if not native_done else None
                    native_done.append(1)
                    if bad:
                        run.violation('C14 %s: %s' % (meth, bad), engine.save_replay('C14', pl))
                    elif not run.violations:
                        run.suspect.append('C14 %s[present=%r, data len %d]: results %r are not the constructed cells in index order %r' % (meth, present, ndata, [g[0] for g in got], exp))
                    continue
                vv, m = run.prove('C14 %s[present=%r, %d data]: cell k is initialised with data[k]' % (meth, present, ndata), pcs(st2), z3.Not(z3.And(conds + [z3.BoolVal(True)])),
                                  timeout=10, cross=False, on_sat='caller')
                if vv == 'sat' and not native_done:
                    native_done.append(1)
                    pl = {'kind': 'withdata_alignment'}
                    bad = check_withdata_native(pl)
                    if bad:
                        run.violation('C14 %s: %s' % (meth, bad), engine.save_replay('C14', pl))
                    else:
                        run.suspect.append('C14 %s[present=%r, %d data]: data is mis-aligned in the encoding; the native pairing scenarios show no difference' % (meth, present, ndata))
                n_ok += 1
    run.bound('data alignment: 3 cells, all 8 presence patterns, data slices of length 3 and 2, symbolic data values')


def check_withdata_native(p, profile='debug'):
    """data entry k belongs to generator k: with a data slice of length m only constructed cells among the generators 0..m may be
    integrated - observed with Data = () through which cells are reached at all, for several masks"""
    for prof in ('debug', 'release'):
        for ndata, mask in ((2, [0, 1, 1, 1]), (3, [1, 0, 0, 1, 1]), (1, [0, 0, 1]), (4, [1, 1, 0, 1, 1, 1]), (3, [1, 1, 1])):
            o = engine.native(['withdata_alignment %d %d %s' % (ndata, len(mask), ' '.join(map(str, mask)))], prof)[0]
            if o[0] != 'ok':
                return 'native scenario panicked: ' + ' '.join(o[1:10])
            parts = ' '.join(o[1:]).split('|')
            exp = [k for k in range(min(ndata, len(mask))) if mask[k]]
            nc = int(parts[0])
            lf = [int(x) for x in parts[1].split()]
            ls = [int(x) for x in parts[2].split()]
            if nc != len(exp):
                return 'mask %r, %d data entries: compute_cell_integrals_with_data returns %d integrals, the constructed cells among generators 0..%d are %r [%s build]' % (mask, ndata, nc, ndata, exp, prof)
            if lf != exp:
                return 'mask %r, %d data entries: compute_face_integrals_with_data integrates cells %r, the data entries belong to cells %r [%s build]' % (mask, ndata, lf, exp, prof)
            if any(x not in exp for x in ls):
                return 'mask %r, %d data entries: compute_face_integrals_sym_with_data integrates cells %r, the data entries belong to cells %r [%s build]' % (mask, ndata, ls, exp, prof)
    return None


def base_triangles(run, funcs):
    """DecompositionWithoutFaces::load_vertex + next for one vertex with three symbolic planes through it"""
    v = rvec('vx')
    gen = rvec('gen')
    ns = [rvec('pn%d' % k) for k in range(3)]
    planes = [FR.half_space(ns[k], v, none(), none()) for k in range(3)]
    vert = engine.make_struct('src/voronoi/convex_cell.rs', 'Vertex', loc=v, dual=Agg('array', (0, 1, 2)), radius2=z3.Real('r2'))
    cell = engine.make_struct('src/voronoi/convex_cell.rs', 'ConvexCell', idx=0, loc=gen, clipping_planes=Agg('Vec', planes), vertices=Agg('Vec', (vert,)),
                              faces=none(), face_vertex_connections=none(), boundary=Opaque('cycle'), safety_radius=z3.Real('sr'),
                              dimensionality=FR.dimv('ThreeD'), _phantom=Agg('zst:PhantomData', ()))
    det = to_z3(dot(ns[2], cross(ns[0], ns[1])))
    pre = [det != 0]
    for k in range(3):
        pre.append(zdot(ns[k], ns[k]) != 0)
    new_name = engine.find_fn(funcs, r'convex_cell::<impl at src/voronoi/convex_cell.rs:\d+:\d+: \d+:\d+>::new$') if False else None
    cands = [n for n in funcs if n.endswith('::new') and funcs[n].ret_ty.startswith('DecompositionWithoutFaces')]
    if len(cands) != 1:
        raise Inconclusive('DecompositionWithoutFaces::new not found: %r' % cands)
    interp = engine.new_interp(funcs)
    st = State()
    st.pc.extend(pre)
    st.heap[1] = cell
    outs = interp.exec_fn(st, cands[0], [Ref(('H', 1))], {'M': 'WithoutFaces'})
    if len(outs) != 1:
        raise Inconclusive('DecompositionWithoutFaces::new: %d paths' % len(outs))
    st, dec = outs[0]
    nexts = [n for n in funcs if n.endswith('::next') and any('DecompositionWithoutFaces' in ty for _, ty in funcs[n].params)]
    if len(nexts) != 1:
        raise Inconclusive('DecompositionWithoutFaces::next not found: %r' % nexts)
    st.heap[2] = dec
    tf = lambda t, nm: t.items[engine.field_index('src/voronoi/convex_cell.rs', 'ConvexCellTet', nm)]
    seen = []
    for k in range(7):
        outs = interp.exec_fn(st, nexts[0], [Ref(('H', 2)), Ref(('H', 1))], {'M': 'WithoutFaces'})
        if len(outs) != 1:
            raise Inconclusive('next: %d paths' % len(outs))
        st, r = outs[0]
        if k == 6:
            if r.name != 'None':
                run.suspect.append('C14 decomposition: more than six tetrahedra for one vertex')
            break
        if r.name != 'Some':
            run.suspect.append('C14 decomposition: only %d tetrahedra for one vertex' % k)
            break
        t = r.items[0]
        pidx = tf(t, 'plane_idx')
        tri = tf(t, 'vertices').items
        seen.append(pidx)
        H = pre + hyps_of(st)
        conds = [zdot(ns[pidx], vsub(p_, v)) == 0 for p_ in tri]
        conds += [to_z3(a) == to_z3(b) for a, b in zip(tri[2].items, v.items)]
        run.prove('C14 decomposition tetrahedron %d: its base triangle lies in the plane of its plane_idx (%d) and ends at the vertex' % (k, pidx), H, z3.Not(z3.And(conds)),
                  timeout=60, cross=(k == 0))
    if sorted(seen) != [0, 0, 1, 1, 2, 2]:
        run.suspect.append('C14 decomposition: plane indices of the six tetrahedra are %r, expected each dual plane twice' % seen)
    side_obligations(run, 'C14 decomposition', st, pre)
    run.add_functions(interp, funcs)
    run.bound('decomposition: one vertex with three symbolic planes through it (linearly independent normals), symbolic generator')


def collectors(run, funcs):
    v0, v1, v2, g = rvec('v0'), rvec('v1'), rvec('v2'), rvec('g')
    # VolumeCentroidIntegral
    mk = lambda cen, vol: engine.make_struct('src/voronoi/integrals.rs', 'VolumeCentroidIntegral', centroid=cen, volume=vol)
    vf = lambda s, nm: s.items[engine.field_index('src/voronoi/integrals.rs', 'VolumeCentroidIntegral', nm)]
    cen0, vol0 = rvec('cen'), z3.Real('vol')
    name = engine.find_fn_where(funcs, r'integrals::<impl at [^>]*>::collect$', 'VolumeCentroidIntegral')
    import re
    c = Call(run, funcs, '^' + re.escape(name) + '$', [mk(cen0, vol0), v0, v1, v2, g], by_ref=(0,))
    st, _ = c.single()
    after = c.arg_after(st, 0)
    V = to_z3(dot(cross(vsub(v1, v0), vsub(v2, v0)), vsub(g, v0))) / 6
    s4 = vadd(vadd(vadd(v0, v1), v2), g)
    conds = [to_z3(vf(after, 'volume')) == vol0 + V] + [to_z3(a) == b + V * to_z3(c_) for a, b, c_ in zip(vf(after, 'centroid').items, cen0.items, s4.items)]
    run.prove('C14 VolumeCentroidIntegral::collect: adds the signed volume V and V (v0+v1+v2+gen) = 4 x (first moment of the tetrahedron)', hyps_of(st), z3.Not(z3.And(conds)), timeout=30)
    name = engine.find_fn_where(funcs, r'integrals::<impl at [^>]*>::finalize$', 'VolumeCentroidIntegral')
    c = Call(run, funcs, '^' + re.escape(name) + '$', [mk(cen0, vol0)])
    for k, (st, r) in enumerate(c.outs):
        run.prove('C14 VolumeCentroidIntegral::finalize path %d: centroid = accumulated moment / (4 volume) for every positive volume' % k, hyps_of(st) + [vol0 > 0],
                  z3.Not(z3.And([to_z3(a) * 4 * vol0 == b for a, b in zip(vf(r, 'centroid').items, cen0.items)] + [to_z3(vf(r, 'volume')) == vol0])), timeout=30, cross=False)
    # AreaCentroidIntegral / AreaIntegral / VolumeIntegral collect
    A = z3.Real('A')
    for ty, fields in (('AreaCentroidIntegral', ('centroid', 'area')), ('AreaIntegral', ('area',)), ('VolumeIntegral', ('volume',))):
        name = engine.find_fn_where(funcs, r'integrals::<impl at [^>]*>::collect$', '&mut ' + ty)
        init = {f: (rvec('c0') if f == 'centroid' else z3.Real('acc0')) for f in fields}
        val = engine.make_struct('src/voronoi/integrals.rs', ty, **init)
        leaf = 'signed_volume_tet' if ty == 'VolumeIntegral' else 'signed_area_tri'
        c = Call(run, funcs, '^' + re.escape(name) + '$', [val, v0, v1, v2, g], by_ref=(0,), overrides={leaf: rec(leaf, A)})
        st, _ = c.single()
        after = c.arg_after(st, 0)
        ev = [e for e in st.events if e[0] == leaf]
        if not (len(ev) == 1 and all(x is y for x, y in zip(ev[0][1], [v0, v1, v2, g]))):
            run.suspect.append('C14 %s::collect: %s must be evaluated on (v0, v1, v2, gen)' % (ty, leaf))
        fi = lambda s, nm: s.items[engine.field_index('src/voronoi/integrals.rs', ty, nm)]
        acc_f = 'volume' if ty == 'VolumeIntegral' else 'area'
        conds = [to_z3(fi(after, acc_f)) == init[acc_f] + A]
        if 'centroid' in fields:
            s3 = vadd(vadd(v0, v1), v2)
            conds += [to_z3(a) == b + A * to_z3(c_) for a, b, c_ in zip(fi(after, 'centroid').items, init['centroid'].items, s3.items)]
        run.prove('C14 %s::collect: accumulates the signed measure%s' % (ty, ' and measure x (v0+v1+v2)' if 'centroid' in fields else ''), hyps_of(st), z3.Not(z3.And(conds)), timeout=20, cross=False)


def check(run):
    funcs, info = engine.load_mir('ibig')
    run.mir_info.append(info)
    run.guard(compile_checks)
    run.guard(data_alignment, funcs)
    run.guard(base_triangles, funcs)
    run.guard(collectors, funcs)
    run.guard(BR.check_face_loops, funcs, 'C14')
    run.guard(BR.check_cell_loop, funcs, 'C14')
    from . import staterules as SR
    run.guard(SR.integrator_with_faces, funcs, 'C14')     # get_cell_at(i) / per-index data still address generator i after with_faces()
    run.assume('that the signed tetrahedra sum to the cell (global tiling), second moments and with/without-faces agreement need the whole float pipeline: outside')
    return run.finish(LEVEL, EXPLANATION, trusted=['rustc (type checking of the downstream crates)', 'rustc -Zunpretty=mir', 'z3 5.1.0 / 4.8.12, cvc5 1.0.3', 'glam / std models of mirsym'])


def replay(path):
    d = json.load(open(path))
    if d['kind'] == 'downstream_compile':
        tgt = os.path.join(engine.CACHE, 'target-downstream')
        p = subprocess.run(['cargo', 'check', '--offline', '--target-dir', tgt], cwd=os.path.join(engine.VERIF, 'downstream', d['crate']), env=engine.ENV, capture_output=True, text=True)
        print(p.stderr[-800:])
        return 1 if p.returncode != 0 else 0
    if d['kind'] == 'integrator_with_faces':
        from . import staterules as SR
        return SR.replay(d)
    if d['kind'] == 'withdata_alignment':
        bad = check_withdata_native(d)
        print(bad)
        return 1 if bad else 0
    return BR.replay(d)
