"""C15 - extracted vertices and face polygons form a valid convex polytope (combinatorial part)."""
import itertools
import json
import random
from fractions import Fraction

import z3

from mirsym import engine
from mirsym.engine import Inconclusive
from mirsym.interp import Agg, Var, Ref, State, Opaque, UNIT, to_z3, is_z3
from .common import rvec, none, some, hyps_of, real_cycle
from .buildrules import pcs
from . import facerule as FR, cliprules as CR

LEVEL = 'other'
EXPLANATION = ('From the MIR of convex_cell.rs: (1) ConvexCell::with_faces on a 1D / 2D cell has no non-panicking path (requesting faces is rejected); '
               '(2) for a cell with face information and SYMBOLIC labels, z3 decides that neighbour(f), shift(f), clipping_plane(f), face_vertex_count(f) and '
               'face_vertices(f) return exactly the data of the half-space / face record they index - also when the neighbour is the cell\'s own periodic image; '
               '(3) with_faces + sort_face_vertices executed through the interpreter on catalogue cells (initial cube with the duals of the MIR of init, '
               'tetrahedron, corner-cut cube) under seeded storage orders and dual rotations: every vertex lies in exactly the three faces of its dual, each face '
               'list is a single cycle in which consecutive vertices share exactly two planes, traversal direction follows the cyclic order of the duals, '
               'V - E + F = 2, discard_faces().with_faces() reproduces the lists, and the type-state keeps the face data present. Planarity, convexity and area '
               'equality are float geometry and outside.')

F = Fraction


def mk_cell(planes, verts, dim='ThreeD', idx=0, labels=None):
    hs = []
    for k, (n, p) in enumerate(planes):
        r, s = (labels[k] if labels else (none(), none()))
        hs.append(FR.half_space(Agg('DVec3', [F(x) for x in n]), Agg('DVec3', [F(x) for x in p]), r, s, d=F(0), errb=F(1, 10 ** 13)))
    vs = [engine.make_struct('src/voronoi/convex_cell.rs', 'Vertex', loc=Agg('DVec3', [F(x) for x in loc]), dual=Agg('array', dual), radius2=F(1)) for dual, loc in verts]
    cyc = real_cycle(engine.load_mir('ibig')[0], len(planes))
    return engine.make_struct('src/voronoi/convex_cell.rs', 'ConvexCell', idx=idx, loc=Agg('DVec3', [F(1, 2)] * 3), clipping_planes=Agg('Vec', hs),
                              vertices=Agg('Vec', vs), faces=none(), face_vertex_connections=none(), boundary=cyc,
                              safety_radius=F(4), dimensionality=FR.dimv(dim), _phantom=Agg('zst:PhantomData', ()))


def with_faces(funcs, cell):
    name = engine.find_fn(funcs, r'convex_cell::<impl at [^>]*>::with_faces$')
    interp = engine.new_interp(funcs, max_visits=200000)
    outs = interp.exec_fn(State(), name, [cell], {})
    return interp, outs


cc = lambda v, nm: v.items[engine.field_index('src/voronoi/convex_cell.rs', 'ConvexCell', nm)]
ff = lambda v, nm: v.items[engine.field_index('src/voronoi/convex_cell.rs', 'ConvexCellFace', nm)]


def face_lists(cell):
    faces = cc(cell, 'faces')
    conn = cc(cell, 'face_vertex_connections')
    if faces.name != 'Some' or conn.name != 'Some':
        return None
    out = []
    c = list(conn.items[0].items)
    for f in faces.items[0].items:
        o, n = ff(f, 'vertex_offset'), ff(f, 'vertex_count')
        out.append((ff(f, 'clipping_plane'), c[o:o + n]))
    return out


def check_polytope(run, name, verts, lists):
    """combinatorial validity of the extracted face lists"""
    duals = [d for d, _ in verts]
    bad = []
    V = len(duals)
    # every vertex in exactly the three faces of its dual
    for vi, d in enumerate(duals):
        inf = sorted(p for p, l in lists if vi in l)
        if inf != sorted(d) or any(l.count(vi) != 1 for p, l in lists if vi in l):
            bad.append('vertex %d (dual %r) is listed by faces %r' % (vi, d, inf))
    E = 0
    for p, l in lists:
        n = len(l)
        if n < 3:
            bad.append('face of plane %d has %d vertices' % (p, n))
            continue
        E += n
        for k in range(n):
            a, b = duals[l[k]], duals[l[(k + 1) % n]]
            shared = set(a) & set(b)
            if len(shared) != 2 or p not in shared:
                bad.append('face of plane %d: consecutive vertices %d,%d share planes %r' % (p, l[k], l[(k + 1) % n], sorted(shared)))
                break
            # traversal direction induced by the cyclic order of the dual: the next vertex is reached across the plane that follows p in the dual of the current vertex
            i0 = list(a).index(p)
            nxt = a[(i0 + 1) % 3]
            if nxt not in b:
                bad.append('face of plane %d: traversal direction at vertex %d disagrees with the cyclic order of its dual %r' % (p, l[k], a))
                break
    E //= 2
    Fc = len(lists)
    if V - E + Fc != 2:
        bad.append('V - E + F = %d - %d + %d != 2' % (V, E, Fc))
    return bad


def catalogue(funcs):
    duals = CR.init_duals_from_mir(funcs)
    cube = [(d, CR.cube_loc(d)) for d in duals]
    tet_planes = [((1, 0, 0), (0, 0, 0)), ((0, 1, 0), (0, 0, 0)), ((0, 0, 1), (0, 0, 0)), ((-1, -1, -1), (1, 0, 0))]
    tet = [((0, 2, 1), (0, 0, 0)), ((0, 1, 3), (0, 0, 1)), ((1, 2, 3), (1, 0, 0)), ((0, 3, 2), (0, 1, 0))]
    # corner-cut cube: the cube clipped by one extra plane (6) that removes the corner of planes (1,3,5) = vertex (5,1,3);
    # new vertices follow the boundary cycle of that corner: (5,1,6), (1,3,6), (3,5,6)
    cut = [(d, loc) for d, loc in cube if set(d) != {1, 3, 5}]
    cut += [((5, 1, 6), (1, 0.5, 1)), ((1, 3, 6), (1, 1, 0.5)), ((3, 5, 6), (0.5, 1, 1))]
    cut_planes = CR.CUBE_PLANES + [((-1, -1, -1), (1, 1, 0.5))]
    # square pyramid over the unit square with apex (1/2,1/2,1): four side planes meet in the apex, which the library represents as two
    # vertices at the SAME location joined by a zero-length edge (here along planes 1 and 3) - as produced by exact ties (lattices).
    # base z=0 (plane 0, inward +z); sides: 1: y=0 side, 2: x=1 side, 3: y=1 side, 4: x=0 side (inward normals)
    pyr_planes = [((0, 0, 1), (0, 0, 0)), ((0, 2, -1), (0, 0, 0)), ((-2, 0, -1), (1, 0, 0)), ((0, -2, -1), (0, 1, 0)), ((2, 0, -1), (0, 0, 0))]
    H = Fraction(1, 2)
    pyr = [((0, 4, 1), (0, 0, 0)), ((0, 1, 2), (1, 0, 0)), ((0, 2, 3), (1, 1, 0)), ((0, 3, 4), (0, 1, 0)),
           ((1, 3, 2), (H, H, 1)), ((1, 4, 3), (H, H, 1))]
    return [('initial cube cell', CR.CUBE_PLANES, cube), ('tetrahedron', tet_planes, tet), ('corner-cut cube', cut_planes, cut),
            ('square pyramid with a 4-valent apex (two coincident vertices)', pyr_planes, pyr)]


def combinatorics(run, funcs, nseeds):
    total = 0
    for cname, planes, verts in catalogue(funcs):
        canon_lists = None
        for seed in [None] + [run.seed * 1000 + k for k in range(nseeds)]:
            vs = list(verts)
            if seed is not None:
                rng = random.Random(seed)
                rng.shuffle(vs)
                vs = [((d[r:] + d[:r]), loc) for (d, loc), r in zip(vs, [rng.randrange(3) for _ in vs])]
            interp, outs = with_faces(funcs, mk_cell(planes, vs))
            run.add_functions(interp, funcs)
            if len(outs) != 1 or interp.panics:
                run.suspect.append('C15 %s[order %s]: with_faces has %d normal paths / %d panics' % (cname, seed, len(outs), len(interp.panics)))
                continue
            st, cell2 = outs[0]
            lists = face_lists(cell2)
            if lists is None:
                run.suspect.append('C15 %s: face data absent after with_faces (unchecked access would be undefined behaviour)' % cname)
                continue
            total += 1
            for b in check_polytope(run, cname, vs, lists):
                run.suspect.append('C15 %s[order %s]: %s' % (cname, seed, b))
            # order independence: the same faces as cyclic sequences of duals
            key = {p: tuple(sorted(tuple(sorted(vs[v][0])) for v in l)) for p, l in lists}
            cyc = {}
            for p, l in lists:
                seq = [tuple(sorted(vs[v][0])) for v in l]
                k0 = seq.index(min(seq))
                cyc[p] = tuple(seq[k0:] + seq[:k0])
            if canon_lists is None:
                canon_lists = cyc
            elif cyc != canon_lists:
                run.suspect.append('C15 %s[order %s]: face polygons depend on the storage order / dual rotation' % (cname, seed))
            # discard_faces().with_faces() is the identity on the face lists
            dname = engine.find_fn(funcs, r'convex_cell::<impl at [^>]*>::discard_faces$')
            i2 = engine.new_interp(funcs, max_visits=200000)
            o2 = i2.exec_fn(State(), dname, [cell2], {})
            c3 = o2[0][1]
            if cc(c3, 'faces').name != 'None' or cc(c3, 'face_vertex_connections').name != 'None':
                run.suspect.append('C15 %s: discard_faces keeps face data' % cname)
            i3, o3 = with_faces(funcs, c3)
            if face_lists(o3[0][1]) != lists:
                run.suspect.append('C15 %s[order %s]: discard_faces().with_faces() changes the face lists' % (cname, seed))
    mine = [s for s in run.suspect if s.startswith('C15 ') and 'accessor' not in s]
    if mine:
        bad = check_polytope_native({'kind': 'polytope'})
        if bad:
            run.violation('C15 with_faces: %s; natively: %s' % (mine[0][:200], bad), engine.save_replay('C15', {'kind': 'polytope'}))
            run.suspect[:] = [s for s in run.suspect if s not in mine]
    run.obligations.append({'name': 'C15 catalogue combinatorics: %d executions of with_faces / discard_faces through the interpreter (3 cells x seeded storage orders and dual rotations)' % total,
                            'expect': 'unsat', 'verdict': 'unsat' if not [s for s in run.suspect if s.startswith('C15 ')] else 'sat',
                            'solver': 'concrete execution of the MIR + structural checks', 'solver_s': 0.0})
    run.bound('catalogue: initial cube, tetrahedron, corner-cut cube; %d seeded storage orders / dual rotations each' % (nseeds + 1))


def check_polytope_native(p, profile='debug'):
    """combinatorial validity of real cells with face information: fcc lattice (exact ties, 4-valent corners), cubic lattice, generic set"""
    for prof in ('debug', 'release'):
        for kind in (0, 1, 2):
            o = engine.native(['polytope_check %d' % kind], prof)[0]
            if o[0] != 'ok':
                return 'with_faces on %s panicked (%s build): %s' % (['an fcc lattice', 'a cubic lattice', 'a generic set'][kind], prof, ' '.join(o[1:12]))
            if o[1] != 'valid':
                return '%s: %s [%s build]' % (['fcc lattice', 'cubic lattice', 'generic set'][kind], ' '.join(o[1:40]), prof)
    return None


def large_face(run, funcs, N=260):
    """with_faces on an N-gon prism (two faces with N > 255 vertices, N + 2 faces, 2N vertices): face_vertex_count / face_vertices / offsets must be
    exact for faces with hundreds of vertices (clustered inputs produce them); executed concretely through the MIR"""
    import math
    planes = [((0, 0, -1), (0, 0, 1)), ((0, 0, 1), (0, 0, 0))]
    for k in range(N):
        t = 2 * math.pi * k / N
        planes.append(((-round(math.cos(t), 6), -round(math.sin(t), 6), 0), (round(math.cos(t), 6), round(math.sin(t), 6), 0)))
    verts = []
    for k in range(N):
        a, b = 2 + k, 2 + (k + 1) % N
        t = 2 * math.pi * (k + 0.5) / N
        x, y = round(math.cos(t), 6), round(math.sin(t), 6)
        verts.append(((0, a, b), (x, y, 1)))
        verts.append(((1, b, a), (x, y, 0)))
    name = engine.find_fn(funcs, r'convex_cell::<impl at [^>]*>::with_faces$')
    interp = engine.new_interp(funcs, max_visits=50000000)
    outs = interp.exec_fn(State(), name, [mk_cell(planes, verts)], {})
    run.add_functions(interp, funcs)
    bad = []
    if len(outs) != 1 or interp.panics:
        bad.append('%d normal paths / %d panics' % (len(outs), len(interp.panics)))
    else:
        cell2 = outs[0][1]
        lists = face_lists(cell2)
        if lists is None:
            bad.append('face data absent')
        else:
            bad += check_polytope(run, 'prism', verts, lists)
            top = [l for p_, l in lists if p_ == 0]
            if not top or len(top[0]) != N:
                bad.append('the top face lists %s of its %d vertices' % (len(top[0]) if top else 'none', N))
            # the accessors on the real record
            for acc in ('face_vertex_count', 'face_vertices'):
                aname = engine.find_fn(funcs, r'convex_cell::<impl at [^>]*>::%s$' % acc)
                fidx = [k for k, (p_, l) in enumerate(lists) if p_ == 0][0]
                s2 = State()
                s2.heap[1] = cell2
                i2 = engine.new_interp(funcs)
                for s3, v in i2.exec_fn(s2, aname, [Ref(('H', 1)), fidx], {}):
                    got = v if acc == 'face_vertex_count' else len(i2.deref_read(s3, v).items)
                    if got != N:
                        bad.append('%s(top face) gives %r, the face has %d vertices' % (acc, got, N))
    run.obligations.append({'name': 'C15 with_faces on a %d-gon prism (faces with more than 255 vertices): valid polytope, counts and vertex lists exact' % N, 'expect': 'unsat',
                            'verdict': 'sat' if bad else 'unsat', 'solver': 'concrete execution of the MIR + structural checks', 'solver_s': 0.0, 'detail': bad[:3]})
    if bad:
        pl = {'kind': 'large_face'}
        r = check_large_face_native(pl)
        if r:
            run.violation('C15 large face: %s; natively: %s' % (bad[0], r), engine.save_replay('C15', pl))
        else:
            run.suspect.append('C15 with_faces on a %d-gon prism: %s (the native ring scenario shows no difference)' % (N, bad[0]))


def check_large_face_native(p, profile='debug'):
    """two generators on the axis of a ring of 300 others: their cells are 300-gon prisms (faces with 300 vertices)"""
    for prof in ('debug', 'release'):
        o = engine.native(['polytope_ring 700'], prof)[0]
        if o[0] != 'ok':
            return 'with_faces on the cells inside a ring of 300 generators panicked (%s build): %s' % (prof, ' '.join(o[1:12]))
        if o[1] != 'valid':
            return '%s [%s build]' % (' '.join(o[1:40]), prof)
    return None


def rejected_in_lower_dimensions(run, funcs):
    for cname, planes, verts in catalogue(funcs)[:1]:
        for dim in ('OneD', 'TwoD'):
            interp, outs = with_faces(funcs, mk_cell(planes, verts, dim=dim))
            ok = (len(outs) == 0 and len(interp.panics) >= 1)
            run.obligations.append({'name': 'C15 with_faces on a %s cell: no non-panicking path (%d normal paths, %d panic paths)' % (dim, len(outs), len(interp.panics)),
                                    'expect': 'unsat', 'verdict': 'unsat' if ok else 'sat', 'solver': 'path enumeration of the MIR (no symbolic branch)', 'solver_s': 0.0})
            if not ok:
                pl = {'kind': 'with_faces_lowdim', 'dim': dim}
                bad = check_lowdim_native(pl)
                if bad:
                    run.violation('C15 ' + bad, engine.save_replay('C15', pl))
                else:
                    run.suspect.append('C15 with_faces accepts a %s cell in the encoding but the native call panics' % dim)


def check_lowdim_native(p, profile='debug'):
    d = {'OneD': 1, 'TwoD': 2}[p['dim']]
    o = engine.native(['cell_with_faces %d' % d], profile)[0]
    if o[0] == 'ok':
        return 'ConvexCell::with_faces accepted a %s cell and returned %s faces (documented: panics in 1D/2D)' % (p['dim'], o[1])
    return None


def accessors(run, funcs):
    """neighbour / shift / clipping_plane / face_vertex_count / face_vertices on a cell with faces and symbolic labels"""
    idx = z3.Int('idx')
    j = z3.Int('j')
    sh = rvec('sh')
    cname, planes, verts = catalogue(funcs)[1]
    for rs, ss in ((True, True), (True, False), (False, False)):
        labels = [(none(), none())] * len(planes)
        labels[2] = (some(j) if rs else none(), some(sh) if ss else none())
        interp, outs = with_faces(funcs, mk_cell(planes, verts, idx=idx, labels=labels))
        st, cell2 = outs[0]
        lists = face_lists(cell2)
        fidx = [k for k, (p, l) in enumerate(lists) if p == 2][0]
        for acc in ('neighbour', 'shift', 'clipping_plane', 'face_vertex_count', 'face_vertices'):
            name = engine.find_fn(funcs, r'convex_cell::<impl at [^>]*>::%s$' % acc)
            i2 = engine.new_interp(funcs)
            s2 = State()
            s2.pc.extend([idx >= 0, j >= 0])      # j == idx allowed: the neighbour may be the cell's own periodic image
            s2.heap[1] = cell2
            o2 = i2.exec_fn(s2, name, [Ref(('H', 1)), fidx], {})
            run.add_functions(i2, funcs)
            cov = []
            for s3, v in o2:
                H = pcs(s3)
                cov.append(z3.And(H + [z3.BoolVal(True)]))
                if acc == 'neighbour':
                    goal = z3.BoolVal(v.name == ('Some' if rs else 'None'))
                    if rs and v.name == 'Some':
                        goal = z3.And(goal, to_z3(v.items[0]) == j)
                elif acc == 'shift':
                    goal = z3.BoolVal(v.name == ('Some' if ss else 'None'))
                    if ss and v.name == 'Some':
                        goal = z3.And(goal, *[to_z3(a) == to_z3(b) for a, b in zip(v.items[0].items, sh.items)])
                elif acc == 'clipping_plane':
                    pl = i2.deref_read(s3, v)
                    goal = z3.And([to_z3(a) == to_z3(F(b)) for a, b in zip(pl.items[0].items, planes[2][0])])
                elif acc == 'face_vertex_count':
                    goal = z3.BoolVal(v == len(lists[fidx][1]))
                else:
                    goal = z3.BoolVal(list(i2.deref_read(s3, v).items) == lists[fidx][1])
                vv, m = run.prove('C15 accessor %s(face of plane 2)[right=%s, shift=%s]: returns the data of the half-space / face record (also when the neighbour is the cell itself)' % (acc, rs, ss),
                                  H, z3.Not(goal), timeout=20, on_sat='caller', cross=False)
                if vv == 'sat':
                    pl = {'kind': 'accessor_own_image'}
                    bad = check_accessor_native(pl)
                    if bad:
                        run.violation('C15 ' + bad, engine.save_replay('C15', pl))
                    else:
                        run.suspect.append('C15 accessor %s: counterexample %s does not reproduce natively' % (acc, str(m)[:120]))
            run.prove('C15 accessor %s: total' % acc, [idx >= 0, j >= 0], z3.Not(z3.Or(cov)) if cov else z3.BoolVal(True), timeout=10, cross=False)


def check_accessor_native(p, profile='debug'):
    o = engine.native(['accessors_periodic'], profile)[0]
    if o[0] != 'ok':
        return 'native accessor scenario panicked: ' + ' '.join(o[1:8])
    if o[1] != '0':
        return 'periodic 3D tessellation with 2 generators: %s face(s) where neighbour()/shift() disagree with the face integrals (right(), shift()) of the same cell' % o[1]
    return None


def check(run):
    funcs, info = engine.load_mir('ibig')
    run.mir_info.append(info)
    run.guard(rejected_in_lower_dimensions, funcs)
    run.guard(accessors, funcs)
    run.guard(combinatorics, funcs, 6 if run.tier == 'quick' else 40)
    run.guard(large_face, funcs)
    from . import C19
    run.guard(C19.intersect_planes_obligations, funcs)      # every vertex is the intersection of its three planes (Vertex::from_dual -> intersect_planes)
    from . import staterules as SR
    run.guard(SR.cell_transitions, funcs, 'C15')
    run.guard(SR.cell_clone, funcs, 'C15')            # face data is still present after clone (unchecked access relies on it)
    run.assume('planarity, convexity and equality of polygon area with the face integral are float geometry: outside')
    return run.finish(LEVEL, EXPLANATION, trusted=['rustc -Zunpretty=mir', 'z3 5.1.0', 'std Vec/slice/iterator models of mirsym'])


def replay(path):
    d = json.load(open(path))
    from . import staterules as SR
    if d['kind'] == 'intersect_planes':
        from . import C19
        return C19.replay(path)
    if d['kind'] in SR.NATIVE:
        return SR.replay(d)
    f = {'with_faces_lowdim': check_lowdim_native, 'accessor_own_image': check_accessor_native, 'polytope': check_polytope_native, 'large_face': check_large_face_native}[d['kind']]
    bad = f(d)
    print(bad)
    return 1 if bad else 0
