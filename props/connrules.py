"""C12: the real Voronoi::finalize, VoronoiCell::face_indices and neighbour_ids from the MIR, symbolically executed on an arbitrary
face list (labels symbolic, discriminants enumerated; symbolic indices into the per-cell lists fork, pruned by z3)."""
import itertools
import json

import z3

from mirsym import engine
from mirsym.engine import Inconclusive
from mirsym.interp import Agg, Var, Ref, State, Opaque, UNIT, to_z3, is_z3
from .common import rvec, none, some, hyps_of
from .buildrules import pcs
from . import facerule as FR


_face_no = itertools.count()


def face(left, right, shift):
    # the geometric content of a face is symbolic (any area, centroid, normal): the index structure must not depend on it
    k = next(_face_no)
    try:
        integral = engine.make_struct('src/voronoi/voronoi_face.rs', 'VoronoiFaceIntegral', area=z3.Real('farea%d' % k), centroid=rvec('fcen%d' % k), normal=rvec('fnrm%d' % k))
    except Exception:
        integral = Opaque('integral')
    integ = engine.make_struct('src/voronoi/integrals.rs', 'FaceIntegrator', left=left, right=right, integral=integral, shift=shift)
    return engine.make_struct('src/voronoi/voronoi_face.rs', 'VoronoiFace', inner=integ)


def cell(idx):
    return engine.make_struct('src/voronoi/voronoi_cell.rs', 'VoronoiCell', loc=rvec('l'), centroid=rvec('c'), volume=z3.Real('vol'), safety_radius=z3.Real('sr'),
                              face_connections_offset=0, face_count=0, idx=idx)


def worker(args):
    pid, N, combo = args
    funcs, _ = engine.load_mir('ibig')
    mr = _Mini()
    run_combo(mr, funcs, pid, N, combo)
    return {'obligations': mr.obligations, 'suspect': mr.suspect, 'inconclusive': mr.inconclusive, 'functions': mr.functions, 'solver_time': mr.solver_time,
            'paths': mr.paths, 'needs_native': mr.needs_native}


class _Mini:
    def __init__(self):
        self.obligations, self.suspect, self.inconclusive, self.violations, self.functions = [], [], [], [], {}
        self.solver_time = 0.0
        self.cross = False
        self.tier = 'quick'
        self.paths = 0
        self.needs_native = False

    prove = engine.Run.prove
    add_functions = engine.Run.add_functions


def run_combo(run, funcs, pid, N, combo):
    """combo: tuple of (right_some, shift_some) per face"""
    M = len(combo)
    left = [z3.Int('left%d' % f) for f in range(M)]
    right = [z3.Int('right%d' % f) for f in range(M)]
    pre = []
    faces = []
    for f, (rs, ss) in enumerate(combo):
        pre += [left[f] >= 0, left[f] < N]
        if rs:
            pre += [right[f] >= 0, right[f] < N]
            if not ss:
                pre.append(right[f] != left[f])                     # an unshifted face separates two different cells
        faces.append(face(left[f], some(right[f]) if rs else none(), some(rvec('sh%d' % f)) if ss else none()))
    for f, g in itertools.combinations(range(M), 2):
        if combo[f] == (True, False) and combo[g] == (True, False):
            # at most one unshifted face per unordered pair (store-once rule, C03)
            pre.append(z3.Not(z3.Or(z3.And(left[f] == left[g], right[f] == right[g]), z3.And(left[f] == right[g], right[f] == left[g]))))
    vor = engine.make_struct('src/voronoi.rs', 'Voronoi', anchor=rvec('a'), width=rvec('w'), voronoi_cells=Agg('Vec', [cell(k) for k in range(N)]),
                             faces=Agg('Vec', faces), cell_face_connections=Agg('Vec', ()), dimensionality=FR.dimv('ThreeD'), periodic=False)
    name = engine.find_fn(funcs, r'^voronoi::<impl at src/voronoi.rs:\d+:\d+: \d+:\d+>::finalize$')
    interp = engine.new_interp(funcs, max_paths=100000, max_visits=400000)
    st = State()
    st.pc.extend(pre)
    outs = interp.exec_fn(st, name, [vor], {})
    for pc, msg, pst in interp.panics:
        run.prove('%s finalize %r: no panic (%s)' % (pid, combo, msg[:40]), list(pc), True, timeout=20, cross=False)
    vf = lambda v, nm: v.items[engine.field_index('src/voronoi.rs', 'Voronoi', nm)]
    cf = lambda v, nm: v.items[engine.field_index('src/voronoi/voronoi_cell.rs', 'VoronoiCell', nm)]
    fi_name = engine.find_fn(funcs, r'voronoi_cell::<impl at [^>]*>::face_indices$')
    nb_name = engine.find_fn(funcs, r'voronoi_cell::<impl at [^>]*>::neighbour_ids$')
    for st2, v in outs:
        run.paths += 1
        H = pcs(st2)
        conn = list(vf(v, 'cell_face_connections').items)
        cells = vf(v, 'voronoi_cells').items
        # per cell: offset / count / listed faces, then the accessors on this final state
        off = 0
        for c in range(N):
            cnt = cf(cells[c], 'face_count')
            o = cf(cells[c], 'face_connections_offset')
            if is_z3(cnt) or is_z3(o):
                raise Inconclusive('symbolic face count')
            lst = conn[o:o + cnt]
            if o != off:
                run.suspect.append('%s finalize %r: offsets are not the prefix sums of the face counts' % (pid, combo))
            off += cnt
            # membership: face f is in the list of c  <=>  left = c or (right = Some(c) and no shift); each once, in face order
            conds = []
            for f, (rs, ss) in enumerate(combo):
                want = left[f] == c
                if rs and not ss:
                    want = z3.Or(want, right[f] == c)
                conds.append(want if lst.count(f) == 1 else (z3.Not(want) if lst.count(f) == 0 else z3.BoolVal(False)))
            if lst != sorted(lst):
                conds.append(z3.BoolVal(False))
            vv, m = run.prove('%s finalize %r: cell %d lists exactly its faces, once each, in face order (list %r)' % (pid, combo, c, lst), H, z3.Not(z3.And(conds)),
                              timeout=20, cross=False, on_sat='caller')
            if vv == 'sat':
                run.needs_native = True
            # accessors
            s3 = st2.fork()
            s3.heap[900] = v
            r1 = interp.exec_fn(s3, fi_name, [Ref(('H', 900), (engine.field_index('src/voronoi.rs', 'Voronoi', 'voronoi_cells'), c)), Ref(('H', 900))], {})
            for s4, sl in r1:
                got = list(interp.deref_read(s4, sl).items)
                if got != lst:
                    run.suspect.append('%s face_indices(cell %d) = %r, expected %r' % (pid, c, got, lst))
            s3 = st2.fork()
            s3.heap[900] = v
            r2 = interp.exec_fn(s3, nb_name, [Ref(('H', 900), (engine.field_index('src/voronoi.rs', 'Voronoi', 'voronoi_cells'), c)), Ref(('H', 900))], {})
            for s4, it in r2:
                got = list(it.items)
                exp = []
                for f in lst:
                    rs, ss = combo[f]
                    if rs and not ss:
                        exp.append(f)
                H4 = pcs(s4)
                if len(got) != len(exp):
                    run.suspect.append('%s neighbour_ids(cell %d) yields %d ids for faces %r (non-boundary non-periodic faces: %r)' % (pid, c, len(got), lst, exp))
                    continue
                conds = []
                for g_, f in zip(got, exp):
                    other = z3.If(left[f] == c, right[f], left[f])
                    conds += [to_z3(g_) == other, to_z3(g_) != c]
                for x, y in itertools.combinations(got, 2):
                    conds.append(to_z3(x) != to_z3(y))
                vv, m = run.prove('%s neighbour_ids(cell %d) %r: other side of its non-boundary non-periodic faces, never itself, no duplicates' % (pid, c, combo), H4,
                                  z3.Not(z3.And(conds + [z3.BoolVal(True)])), timeout=20, cross=False, on_sat='caller')
                if vv == 'sat':
                    run.needs_native = True
        if off != len(conn):
            run.suspect.append('%s finalize %r: total of the face counts %d != length of the connectivity array %d' % (pid, combo, off, len(conn)))
    run.add_functions(interp, funcs)


def cell_record(run, funcs, pid):
    """VoronoiCell::finalize stores, and face_connections_offset() / face_count() return, the offset and the count EXACTLY for every value a
    tessellation can produce (symbolic, up to 2^48): the index structure stays valid for cells with hundreds of faces and tessellations with
    billions of connections"""
    import re
    from . import oracle as OR
    off, cnt = z3.Int('rec_off'), z3.Int('rec_cnt')
    pre = [off >= 0, cnt >= 0, off < 2 ** 48, cnt < 2 ** 48]
    uname = engine.find_fn(funcs, r'voronoi_cell::<impl at [^>]*>::unconstructed$')
    interp = engine.new_interp(funcs)
    st = State()
    st.pc.extend(pre)
    outs = interp.exec_fn(st, uname, [z3.Int('rec_idx')], {})
    if len(outs) != 1:
        raise Inconclusive('VoronoiCell::unconstructed: %d paths' % len(outs))
    st, cell = outs[0]
    st.heap[77] = cell
    fname = engine.find_fn(funcs, r'voronoi_cell::<impl at [^>]*>::finalize$')
    outs = interp.exec_fn(st, fname, [Ref(('H', 77)), off, cnt], {})
    if len(outs) != 1:
        raise Inconclusive('VoronoiCell::finalize: %d paths' % len(outs))
    st = outs[0][0]
    for acc, want in (('face_connections_offset', off), ('face_count', cnt)):
        aname = engine.find_fn(funcs, r'voronoi_cell::<impl at [^>]*>::%s$' % acc)
        for s2, v in interp.exec_fn(st.fork(), aname, [Ref(('H', 77))], {}):
            vv, m = run.prove('%s VoronoiCell::%s() returns what finalize stored, for every offset / count below 2^48' % (pid, acc), pcs(s2), z3.Not(to_z3(v) == want),
                              timeout=20, cross=False, on_sat='caller')
            if vv == 'sat':
                val = int(engine.model_value(m, want))
                what = '%s VoronoiCell::%s() != stored value (e.g. %d is returned as %s)' % (pid, acc, val, engine.model_value(m, to_z3(v)))
                n = min(max(val + 20, 40), 400)
                extra = [OR.ring_scenario(2, n), OR.ring_scenario(3, n)]
                if not OR.confirm_family(pid, run, what, 2, False, None, (0, 1), pids=('C12',), extra=extra):
                    run.suspect.append(what + ' - no public-API scenario with that many faces shows a difference')
    run.add_functions(interp, funcs)


def parse_build(tokens):
    txt = ' '.join(tokens)
    part = txt.split('||')
    cells = []
    for c in part[0].split('|')[1:]:
        t = c.split()
        k = t.index('ngb')
        cells.append({'id': int(t[0]), 'volume': float(t[1]), 'offset': int(t[k - 2]), 'count': int(t[k - 1]), 'ngb': [int(x) for x in t[k + 1:]]})
    faces = []
    for fc in part[1].split('|')[1:]:
        t = fc.split()
        left = int(t[0]); right = None if t[1] == '-' else int(t[1])
        shifted = t[2] == '1'
        faces.append({'left': left, 'right': right, 'shifted': shifted})
    conn = [int(x) for x in part[2].split()[1:]]
    return cells, faces, conn


NATIVE_SCENARIOS = [
    'build 3 0 0 0 0 1 1 1 0 3 0.2 0.5 0.5 0 0.5 0.5 0.5 0 0.8 0.5 0.5 0',
    'build 3 0 0 0 0 1 1 1 1 3 0.2 0.5 0.5 1 0.5 0.5 0.5 0 0.8 0.5 0.5 1',
    'build 2 1 0 0 0 1 1 1 0 3 0.2 0.3 0 0 0.6 0.7 0 0 0.8 0.2 0 0',
    'build 1 1 0 0 0 1 1 1 1 3 0.2 0 0 1 0.5 0 0 0 0.9 0 0 1',
    'build_via_integrator 3 1 0 0 0 1 1 1 1 4 0.2 0.5 0.5 1 0.5 0.5 0.5 0 0.8 0.5 0.5 1 0.5 0.2 0.8 1',
]


def check_native(profile='debug'):
    """the same index-structure statements on real tessellations (reflective / periodic / partial; both routes)"""
    for line in NATIVE_SCENARIOS:
        o = engine.native([line], profile)[0]
        if o[0] != 'ok':
            return 'native build panicked (%s)' % line[:40]
        cells, faces, conn = parse_build(o[1:])
        off = 0
        for c in cells:
            if c['offset'] != off:
                return 'cell %d: offset %d is not the prefix sum %d (%s)' % (c['id'], c['offset'], off, line[:30])
            lst = conn[c['offset']:c['offset'] + c['count']]
            exp = [f for f, fc in enumerate(faces) if fc['left'] == c['id'] or (fc['right'] == c['id'] and not fc['shifted'])]
            if sorted(lst) != exp:
                return 'cell %d lists faces %r, expected exactly %r (faces: %r) [%s]' % (c['id'], lst, exp, [faces[f] for f in sorted(set(lst) | set(exp))], line[:40])
            nb = []
            for f in lst:
                fc = faces[f]
                if fc['right'] is not None and not fc['shifted']:
                    nb.append(fc['right'] if fc['left'] == c['id'] else fc['left'])
            if c['ngb'] != nb or c['id'] in c['ngb'] or len(set(c['ngb'])) != len(c['ngb']):
                return 'cell %d: neighbour_ids = %r, expected %r (never the cell itself, no duplicates) [%s]' % (c['id'], c['ngb'], nb, line[:40])
            off += c['count']
        if off != len(conn):
            return 'sum of face counts %d != length of cell_face_connections %d' % (off, len(conn))
    return None


def check(run, funcs, pid, N=3, M=2, procs=12):
    import multiprocessing as mp
    combos = list(itertools.product([(False, False), (True, False), (True, True)], repeat=M))
    with mp.get_context('fork').Pool(min(procs, len(combos))) as pool:
        results = pool.map(worker, [(pid, N, c) for c in combos])
    paths = 0
    need = False
    for r in results:
        run.obligations.extend(r['obligations'])
        run.suspect.extend(r['suspect'])
        run.inconclusive.extend(r['inconclusive'])
        run.functions.update(r['functions'])
        run.solver_time += r['solver_time']
        paths += r['paths']
        need = need or r['needs_native']
    if need or run.suspect:
        # a symbolic path violates the index structure: replay the statements on real tessellations
        for prof in ('debug', 'release'):
            bad = check_native(prof)
            if bad:
                run.violation('%s connectivity: %s (%s build)' % (pid, bad, prof), engine.save_replay(pid, {'kind': 'connectivity', 'profile': prof}))
                break
        else:
            if need:
                run.suspect.append('%s: a symbolic path of finalize/neighbour_ids violates the index structure but the native scenarios show no violation' % pid)
    run.samples.append({'cells': N, 'faces': M, 'label_combinations': len(combos), 'symbolic_paths': paths})
    run.bound('finalize / face_indices / neighbour_ids: %d cells, %d faces; left/right symbolic in [0,%d), right/shift presence enumerated (%d combinations); %d feasible paths' % (N, M, N, len(combos), paths))
    return paths
