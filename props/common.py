"""Helpers shared by the Engine-M property modules."""
import json
import math
import random
from fractions import Fraction

import z3

from mirsym import engine
from mirsym.engine import Inconclusive
from mirsym.interp import Agg, Var, Ref, State, SymArr, to_z3, is_z3
from mirsym.models import dot, cross, vmap2, vscale


def rvec(name):
    return Agg('DVec3', [z3.Real('%s_%s' % (name, c)) for c in 'xyz'])


def vec_vars(v):
    return list(v.items)


def zdot(a, b):
    return to_z3(dot(a, b))


def vsub(a, b):
    return vmap2('-', a, b)


def vadd(a, b):
    return vmap2('+', a, b)


def none():
    return Var('None', (), 'Option')


def some(x):
    return Var('Some', (x,), 'Option')


class Call:
    """symbolic execution of one crate function from its MIR"""

    def __init__(self, run, funcs, pattern, args, by_ref=(), generics=None, overrides=None, interp_kw=None, pre=()):
        self.run = run
        self.funcs = funcs
        self.name = engine.find_fn(funcs, pattern)
        self.interp = engine.new_interp(funcs, overrides=overrides or {}, generics=generics or {}, **(interp_kw or {}))
        st = State()
        st.pc.extend(pre)      # documented precondition: lets the interpreter prune paths that contradict it
        argv = []
        for k, a in enumerate(args):
            if k in by_ref:
                st.heap[5000 + k] = a
                argv.append(Ref(('H', 5000 + k)))
            else:
                argv.append(a)
        self.state0 = st
        self.outs = self.interp.exec_fn(st, self.name, argv, generics or {})
        self.panics = self.interp.panics
        run.add_functions(self.interp, funcs)

    def single(self):
        if len(self.outs) != 1:
            raise Inconclusive('%s: expected one path, got %d' % (self.name, len(self.outs)))
        return self.outs[0]

    def arg_after(self, st, k):
        """value of by-ref argument k in final state st"""
        return st.heap[5000 + k]


def hyps_of(st):
    return [c for c in st.pc if not isinstance(c, bool)] + list(st.defs)


def side_obligations(run, prefix, st, pre):
    """side conditions of the models (sqrt argument >= 0, divisor != 0) must follow from the documented precondition"""
    seen = set()
    for (pc, cond, msg) in st.side:
        if isinstance(cond, bool):
            if not cond:
                run.inconclusive.append('%s: side condition concretely false: %s' % (prefix, msg))
            continue
        key = str(cond)
        if key in seen:
            continue
        seen.add(key)
        run.prove('%s side condition (%s)' % (prefix, msg), pre + list(pc) + list(st.defs), z3.Not(cond), timeout=30, cross=False)


def model_floats(model, variables):
    out = {}
    for v in variables:
        out[str(v)] = float(engine.model_value(model, v))
    return out


def vec_from(vals, name):
    return [vals['%s_%s' % (name, c)] for c in 'xyz']


def fmt_vec(v):
    return ' '.join(engine.f2s(x) for x in v)


def all_vars(*vecs):
    out = []
    for v in vecs:
        if isinstance(v, Agg):
            out.extend(x for x in v.items if is_z3(x))
        elif is_z3(v):
            out.append(v)
    return out


def nice_model(run, name, hyps, neg_goal, variables, timeout=20):
    """Ask for a counterexample with small 'nice' values first (bounded integers / halves), which replay
    robustly in floating point; fall back to the unconstrained model."""
    for bound in (3, 8, 64):
        s = z3.Solver()
        s.set('timeout', int(timeout * 1000))
        for h in hyps:
            s.add(h)
        s.add(neg_goal)
        for v in variables:
            k = z3.Int('k!' + str(v))
            s.add(v * 2 == z3.ToReal(k), k >= -2 * bound, k <= 2 * bound)
        if s.check() == z3.sat:
            return s.model()
    return None


def ground_model(hyps, neg_goal, variables, seed=0, tries=16, timeout=10):
    """Counterexample search by instantiation: every variable is pinned to a small half-integer (seeded choices) and the solver
    decides the ground instance  hyps /\\ neg_goal  (definitions such as s >= 0, s*s = X are solved exactly).  sat = a concrete
    counterexample (returned as a model); nothing found = None (never counted as a proof)."""
    rng = random.Random(seed + 4711)
    for t in range(tries):
        bound = (2, 3, 5, 8)[t % 4]
        s = z3.Solver()
        s.set('timeout', int(timeout * 1000))
        for h in hyps:
            s.add(h)
        s.add(neg_goal)
        for v in variables:
            s.add(v == z3.RealVal(rng.randrange(-2 * bound, 2 * bound + 1)) / 2)
        if s.check() == z3.sat:
            return s.model()
    return None


def fnum(t):
    return float(t)


_cycle_cache = {}


def real_cycle(funcs, n):
    """SimpleCycle::new(n) executed from the MIR (so that added / reordered fields of the struct are tracked, not guessed)"""
    key = (id(funcs), n)
    if key not in _cycle_cache:
        name = engine.find_fn(funcs, r'simple_cycle::<impl at [^>]*>::new$')
        interp = engine.new_interp(funcs)
        outs = interp.exec_fn(State(), name, [n], {})
        if len(outs) != 1:
            raise Inconclusive('SimpleCycle::new: %d paths' % len(outs))
        _cycle_cache[key] = outs[0][1]
    return _cycle_cache[key]
