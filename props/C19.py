"""C19 - public geometry helpers satisfy their defining equations (all real arguments, from the MIR)."""
import json
import math

import z3

from mirsym import engine
from mirsym.interp import Agg, to_z3, is_z3
from mirsym.models import dot, cross
from .common import (ground_model, Call, rvec, zdot, vsub, vadd, hyps_of, side_obligations, model_floats, vec_from, fmt_vec,
                     all_vars, nice_model)

LEVEL = 'other'
EXPLANATION = ('Each exported geometry helper is executed symbolically from its MIR (glam operations from the model table, f64 read as exact '
               'reals); z3 decides, for all real arguments satisfying the documented non-degeneracy, the negation of each defining equation '
               '(unsat = the formula is algebraically the right one). A satisfying assignment is replayed through the public API; a VIOLATION '
               'is reported only if the native residual exceeds 1e-6 x scale.')

TOL = 1e-6


def np_dot(a, b): return sum(x * y for x, y in zip(a, b))
def np_sub(a, b): return [x - y for x, y in zip(a, b)]
def np_cross(a, b): return [a[1] * b[2] - a[2] * b[1], a[2] * b[0] - a[0] * b[2], a[0] * b[1] - a[1] * b[0]]
def np_scale(vs): return max([1.0] + [abs(x) for v in vs for x in v])


def nat(line, profile):
    o = engine.native([line], profile)[0]
    if o[0] != 'ok':
        return None
    return [float(x) for x in o[1:]]


# ---- native residual checks: given concrete inputs, run the real function and evaluate the defining equations in f64
def r_intersect(v, prof):
    n = [vec_from(v, 'n%d' % k) for k in range(3)]
    p = [vec_from(v, 'p%d' % k) for k in range(3)]
    x = nat('intersect_planes ' + ' '.join(fmt_vec(n[k]) + ' ' + fmt_vec(p[k]) for k in range(3)), prof)
    if x is None:
        return False, 'native call panicked (degenerate input)'
    sc = np_scale(n + p + [x]) ** 2
    res = max(abs(np_dot(n[k], x) - np_dot(n[k], p[k])) for k in range(3))
    return res > TOL * sc, 'residual %.3e x=%r' % (res, x)


def r_project(v, prof):
    n, p, x = vec_from(v, 'n'), vec_from(v, 'p'), vec_from(v, 'x')
    y = nat('project_onto %s %s %s' % (fmt_vec(n), fmt_vec(p), fmt_vec(x)), prof)
    if y is None:
        return False, 'panic'
    sc = np_scale([n, p, x, y]) ** 2
    r1 = abs(np_dot(np_sub(y, p), n))
    r2 = max(abs(t) for t in np_cross(np_sub(y, x), n))
    y2 = nat('project_onto %s %s %s' % (fmt_vec(n), fmt_vec(p), fmt_vec(y)), prof)
    r3 = max(abs(a - b) for a, b in zip(y, y2))
    res = max(r1, r2, r3)
    return res > TOL * sc, 'residuals on-plane %.3e along-normal %.3e idempotent %.3e' % (r1, r2, r3)


def r_project_int(v, prof):
    n1, p1, n2, p2, x = (vec_from(v, k) for k in ('n1', 'p1', 'n2', 'p2', 'x'))
    cmd = 'project_onto_intersection %s %s %s %s ' % (fmt_vec(n1), fmt_vec(p1), fmt_vec(n2), fmt_vec(p2))
    y = nat(cmd + fmt_vec(x), prof)
    if y is None:
        return False, 'panic'
    sc = np_scale([n1, p1, n2, p2, x, y]) ** 3
    r1 = abs(np_dot(np_sub(y, p1), n1))
    r2 = abs(np_dot(np_sub(y, p2), n2))
    r3 = abs(np_dot(np_sub(y, x), np_cross(n1, n2)))
    y2 = nat(cmd + fmt_vec(y), prof)
    r4 = max(abs(a - b) for a, b in zip(y, y2)) if y2 else 0.0
    res = max(r1, r2, r3, r4)
    return res > TOL * sc, 'residuals plane1 %.3e plane2 %.3e direction %.3e idempotent %.3e' % (r1, r2, r3, r4)


def r_vol(v, prof):
    vs = [vec_from(v, 'v%d' % k) for k in range(4)]
    f = lambda order: nat('signed_volume_tet ' + ' '.join(fmt_vec(vs[k]) for k in order), prof)[0]
    ref = np_dot(np_cross(np_sub(vs[1], vs[0]), np_sub(vs[2], vs[0])), np_sub(vs[3], vs[0])) / 6.0
    sc = np_scale(vs) ** 3
    val = f([0, 1, 2, 3])
    res = [abs(val - ref)]
    for a, b in ((0, 1), (0, 2), (0, 3), (1, 2), (1, 3), (2, 3)):
        o = [0, 1, 2, 3]
        o[a], o[b] = o[b], o[a]
        res.append(abs(f(o) + val))
    return max(res) > TOL * sc, 'value %.6e reference %.6e max residual %.3e' % (val, ref, max(res))


def r_area(v, prof):
    vs = [vec_from(v, k) for k in ('v0', 'v1', 'v2', 't')]
    f = lambda order: nat('signed_area_tri ' + ' '.join(fmt_vec(vs[k]) for k in order), prof)[0]
    val = f([0, 1, 2, 3])
    n = [0.5 * c for c in np_cross(np_sub(vs[1], vs[0]), np_sub(vs[2], vs[0]))]
    side = np_dot(np_sub(vs[3], vs[0]), n)
    ref = math.sqrt(np_dot(n, n)) * (1.0 if side >= 0 else -1.0)
    sc = np_scale(vs) ** 2
    res = [abs(val - ref), abs(f([0, 2, 1, 3]) + val) if abs(side) > 1e-9 * sc else 0.0]
    return max(res) > TOL * sc, 'value %.6e reference %.6e' % (val, ref)


def r_sphere(kind):
    def f(v, prof):
        n = {'sphere2': 2, 'sphere3': 3, 'sphere4': 4}[kind]
        ps = [vec_from(v, 'abcd'[k]) for k in range(n)]
        o = nat(kind + ' ' + ' '.join(fmt_vec(p) for p in ps), prof)
        if o is None:
            return False, 'panic'
        c, r = o[:3], o[3]
        if not all(math.isfinite(x) for x in o):
            return False, 'non-finite result (degenerate input)'
        sc = np_scale(ps + [c]) ** 2
        res = max(abs(np_dot(np_sub(c, p), np_sub(c, p)) - r * r) for p in ps)
        extra = 0.0
        if n == 3:
            nn = np_cross(np_sub(ps[0], ps[2]), np_sub(ps[1], ps[2]))
            extra = abs(np_dot(np_sub(c, ps[2]), nn)) / max(1.0, math.sqrt(np_dot(nn, nn)))
        if n == 2:
            extra = max(abs(2 * c[k] - ps[0][k] - ps[1][k]) for k in range(3))
        return max(res, extra) > TOL * sc or r < 0, 'centre %r radius %.6e residual %.3e extra %.3e' % (c, r, res, extra)
    return f


def r_extend(v, prof):
    c, x, r = vec_from(v, 'c'), vec_from(v, 'x'), v['r']
    o = nat('sphere_extend %s %s %s' % (fmt_vec(c), engine.f2s(r), fmt_vec(x)), prof)
    if o is None:
        return False, 'panic'
    c2, r2 = o[:3], o[3]
    d = math.sqrt(np_dot(np_sub(x, c), np_sub(x, c)))
    sc = max(abs(r), d)         # the statement is scale invariant: residuals are judged relative to the size of the configuration
    if r > 0 and d * d <= r * r * (1 + 1e-10):
        res = max(abs(r2 - r), max(abs(a - b) for a, b in zip(c, c2)))
        return res > TOL * sc, 'inside: sphere must be unchanged, residual %.3e' % res
    if r <= 0:
        return False, 'radius <= 0 outside the documented domain'
    cc = math.sqrt(np_dot(np_sub(c2, c), np_sub(c2, c)))
    cx = math.sqrt(np_dot(np_sub(c2, x), np_sub(c2, x)))
    res = max(abs(r2 - (r + d) / 2), abs(cc - (d - r) / 2), abs(cx - r2))
    return res > TOL * sc, 'outside: r\'=%.6e expected %.6e |c\'-c|=%.6e expected %.6e |c\'-x|=%.6e' % (r2, (r + d) / 2, cc, (d - r) / 2, cx)


def r_insphere_float(v, prof):
    ps = [vec_from(v, k) for k in 'abcdv']
    o = nat('insphere_float ' + ' '.join(fmt_vec(p) for p in ps), prof)
    from . import insphere
    from fractions import Fraction
    P = {nm: [Fraction(x) for x in p] for nm, p in zip('abcdv', ps)}
    ref = float(insphere.ref_det(P))
    sc = np_scale(ps) ** 5
    return abs(o[0] - ref) > TOL * sc, 'value %.6e reference %.6e' % (o[0], ref)


REPLAYERS = {'intersect_planes': r_intersect, 'project_onto': r_project, 'project_onto_intersection': r_project_int,
             'signed_volume_tet': r_vol, 'signed_area_tri': r_area, 'sphere2': r_sphere('sphere2'), 'sphere3': r_sphere('sphere3'),
             'sphere4': r_sphere('sphere4'), 'sphere_extend': r_extend, 'insphere_float': r_insphere_float}


def decide(run, kind, label, hyps, goal, variables, timeout=60, prefer=None):
    """prove hyps => goal; on a counterexample, replay natively"""
    v, m = run.prove('C19 %s: %s' % (kind, label), hyps, z3.Not(goal), timeout=timeout, on_sat='caller',
                     sample={'function': kind, 'equation': label})
    if v == 'unknown':
        # no verdict on the general query: look for a counterexample on the lattice of small half-integers (a much easier query for the
        # solver); a model found there is replayed natively like any other, no model leaves the obligation inconclusive
        m = ground_model(hyps, z3.Not(goal), variables, seed=run.seed) or nice_model(run, label, hyps, z3.Not(goal), variables, timeout=30)
        if m is None:
            return
    elif v != 'sat':
        return
    m2 = nice_model(run, label, hyps, z3.Not(goal), variables)
    if m2 is None and prefer:
        # a counterexample that is far from the boundary of the violated condition replays robustly in floating point
        s_ = z3.Solver()
        s_.set('timeout', 20000)
        for h in list(hyps) + list(prefer) + [z3.Not(goal)]:
            s_.add(h)
        if s_.check() == z3.sat:
            m2 = s_.model()
    m2 = m2 or m
    vals = model_floats(m2, variables)
    reproduced = None
    for prof in ('debug', 'release'):
        bad, info = REPLAYERS[kind](vals, prof)
        if bad:
            reproduced = (prof, info)
            break
    if reproduced:
        path = engine.save_replay('C19', {'kind': kind, 'values': vals, 'equation': label, 'profile': reproduced[0]})
        run.violation('C19 %s violates "%s" at %r: %s (%s build)' % (kind, label, vals, reproduced[1], reproduced[0]), path)
    else:
        run.suspect.append('C19 %s "%s": solver counterexample %r does not reproduce natively (%s)' % (kind, label, vals, info))


def sphere_contains(run, funcs, pid='C19'):
    """Sphere::contains decides membership up to a RELATIVE tolerance: true only if |x-c|^2 <= r^2 (1 + 1e-9) (any scale), and true whenever
    |x-c|^2 <= r^2 with r > 0.  (The bounding-sphere solvers and Sphere::extend rely on it at every length scale.)"""
    from .common import Call as C_
    ctr, x, r = rvec('c'), rvec('x'), z3.Real('r')
    mk = lambda c_, r_: engine.make_struct('src/geometry.rs', 'Sphere', center=c_, radius=r_)
    c = C_(run, funcs, r'geometry::.*::contains$', [mk(ctr, r), x], by_ref=(0,), pre=[r > 0])
    dx = vsub(x, ctr)
    d2 = zdot(dx, dx)
    vs = all_vars(ctr, x) + [r]
    for k, (st, v) in enumerate(c.outs):
        H = [r > 0] + hyps_of(st)
        if is_z3(v):
            t = to_z3(v)
        else:
            t = z3.BoolVal(bool(v))
        for label, goal, prefer in (
                ('contains(x) only if |x-c|^2 <= r^2 (1 + 1e-9)', z3.Implies(t, d2 <= r * r * z3.RealVal('1000000001') / z3.RealVal('1000000000')),
                 [d2 >= 4 * r * r] + [to_z3(q) == 0 for q in ctr.items] + [to_z3(x.items[1]) == 0, to_z3(x.items[2]) == 0]),
                ('|x-c|^2 <= r^2 implies contains(x)', z3.Implies(d2 <= r * r, t),
                 [d2 * 4 <= r * r] + [to_z3(q) == 0 for q in ctr.items] + [to_z3(x.items[1]) == 0, to_z3(x.items[2]) == 0])):
            v_, m = run.prove('%s sphere_contains path %d: %s' % (pid, k, label), H, z3.Not(goal), timeout=30, on_sat='caller', sample={'function': 'Sphere::contains', 'equation': label})
            if v_ != 'sat':
                continue
            s_ = z3.Solver()
            s_.set('timeout', 20000)
            for h in H + prefer + [z3.Not(goal)]:
                s_.add(h)
            m2 = s_.model() if s_.check() == z3.sat else m
            vals = model_floats(m2, vs)
            rep = None
            for prof in ('debug', 'release'):
                bad, info = r_contains(vals, prof)
                if bad:
                    rep = (prof, info)
                    break
            if rep:
                run.violation('%s Sphere::contains violates "%s" at %r: %s (%s build)' % (pid, label, vals, rep[1], rep[0]),
                              engine.save_replay(pid, {'kind': 'sphere_contains', 'values': vals, 'equation': label, 'profile': rep[0]}))
            else:
                run.suspect.append('%s Sphere::contains "%s": solver counterexample %r does not reproduce natively (%s)' % (pid, label, vals, info))


def r_contains(v, prof):
    c, x, r = vec_from(v, 'c'), vec_from(v, 'x'), v['r']
    o = nat('sphere_contains %s %s %s' % (fmt_vec(c), engine.f2s(r), fmt_vec(x)), prof)
    if o is None:
        return False, 'panic'
    got = o[0] != 0
    d2 = np_dot(np_sub(x, c), np_sub(x, c))
    if got and d2 > r * r * (1 + 1e-6):
        return True, 'contains() = true although |x-c| = %.6e and r = %.6e' % (math.sqrt(d2), r)
    if (not got) and r > 0 and d2 <= r * r * (1 - 1e-6):
        return True, 'contains() = false although |x-c| = %.6e and r = %.6e' % (math.sqrt(d2), r)
    return False, 'contains() = %s, |x-c| = %.6e, r = %.6e' % (got, math.sqrt(d2), r)


REPLAYERS['sphere_contains'] = r_contains


def veq(a, b):
    return z3.And([to_z3(x) == to_z3(y) for x, y in zip(a.items, b.items)])


def intersect_planes_obligations(run, funcs):
    """the vertex formula: the returned point lies on all three planes, on EVERY normal path of the function (det != 0)"""
    mk_plane = lambda n, p: engine.make_struct('src/geometry.rs', 'Plane', n=n, p=p)
    n = [rvec('n%d' % k) for k in range(3)]
    p = [rvec('p%d' % k) for k in range(3)]
    c = Call(run, funcs, r'^intersect_planes$', [mk_plane(n[k], p[k]) for k in range(3)], by_ref=(0, 1, 2))
    vs = all_vars(*n, *p)
    det = to_z3(dot(n[2], cross(n[0], n[1])))
    for pk, (st, x) in enumerate(c.outs):
        H = hyps_of(st)
        tagp = '' if len(c.outs) == 1 else ' [path %d]' % pk
        if pk == 0:
            run.witness('C19 intersect_planes', H)
        for k in range(3):
            decide(run, 'intersect_planes', 'n%d . x = n%d . p%d%s' % (k, k, k, tagp), H, zdot(n[k], x) == zdot(n[k], p[k]), vs,
                   prefer=[det * det <= z3.RealVal('1e-18'), det != 0] if len(c.outs) > 1 else None)
        run.guard(side_obligations, 'C19 intersect_planes%s' % tagp, st, H)
    if not c.outs:
        run.inconclusive.append('intersect_planes: no normal path')
    # the function's own guard is exactly det != 0: the panic path is taken iff det = 0
    for pc, msg, pst in c.panics:
        run.prove('C19 intersect_planes: panic only if the three normals are linearly dependent', list(pc), det != 0, timeout=30)


def check(run):
    funcs, info = engine.load_mir('ibig')
    run.mir_info.append(info)
    run.bound('all real arguments (f64 read as exact reals); preconditions = documented non-degeneracy per function')
    mk_plane = lambda n, p: engine.make_struct('src/geometry.rs', 'Plane', n=n, p=p)
    mk_sphere = lambda c, r: engine.make_struct('src/geometry.rs', 'Sphere', center=c, radius=r)
    sph_c = engine.field_index('src/geometry.rs', 'Sphere', 'center')
    sph_r = engine.field_index('src/geometry.rs', 'Sphere', 'radius')

    intersect_planes_obligations(run, funcs)

    # ---- Plane::project_onto
    nn, pp, xx = rvec('n'), rvec('p'), rvec('x')
    pre = [zdot(nn, nn) != 0]
    c = Call(run, funcs, r'::project_onto$', [mk_plane(nn, pp), xx], by_ref=(0,))
    st, y = c.single()
    H = pre + hyps_of(st)
    vs = all_vars(nn, pp, xx)
    run.guard(decide, 'project_onto', "(x' - p) . n = 0", H, zdot(vsub(y, pp), nn) == 0, vs)
    run.guard(decide, 'project_onto', "(x' - x) x n = 0", H, veq(cross(vsub(y, xx), nn), Agg('DVec3', [0, 0, 0])), vs)
    c2 = Call(run, funcs, r'::project_onto$', [mk_plane(nn, pp), y], by_ref=(0,))
    st2, y2 = c2.single()
    run.guard(decide, 'project_onto', 'idempotent', H + hyps_of(st2), veq(y2, y), vs)
    run.guard(side_obligations, 'C19 project_onto', st, pre)

    # ---- Plane::project_onto_intersection
    n1, p1, n2, p2, xx = rvec('n1'), rvec('p1'), rvec('n2'), rvec('p2'), rvec('x')
    cr = cross(n1, n2)
    pre = [zdot(cr, cr) != 0]
    c = Call(run, funcs, r'::project_onto_intersection$', [mk_plane(n1, p1), mk_plane(n2, p2), xx], by_ref=(0, 1))
    st, y = c.single()
    H = pre + hyps_of(st)
    vs = all_vars(n1, p1, n2, p2, xx)
    run.guard(decide, 'project_onto_intersection', 'on plane 1', H, zdot(vsub(y, p1), n1) == 0, vs)
    run.guard(decide, 'project_onto_intersection', 'on plane 2', H, zdot(vsub(y, p2), n2) == 0, vs)
    run.guard(decide, 'project_onto_intersection', "(x' - x) . (n1 x n2) = 0", H, zdot(vsub(y, xx), cr) == 0, vs)
    for pc, msg, pst in c.panics:
        run.prove('C19 project_onto_intersection: panic only if n1 x n2 = 0', pre + list(pc), True, timeout=30)
    c2 = Call(run, funcs, r'::project_onto_intersection$', [mk_plane(n1, p1), mk_plane(n2, p2), y], by_ref=(0, 1))
    st2, y2 = c2.single()
    run.guard(decide, 'project_onto_intersection', 'idempotent', H + hyps_of(st2), veq(y2, y), vs, timeout=120)

    # ---- signed_volume_tet
    v = [rvec('v%d' % k) for k in range(4)]
    c = Call(run, funcs, r'^signed_volume_tet$', v)
    st, val = c.single()
    H = hyps_of(st)
    vs = all_vars(*v)
    ref = to_z3(dot(cross(vsub(v[1], v[0]), vsub(v[2], v[0])), vsub(v[3], v[0]))) / 6
    run.guard(decide, 'signed_volume_tet', '= ((v1-v0)x(v2-v0)).(v3-v0)/6', H, to_z3(val) == ref, vs)
    for a, b in ((0, 1), (0, 2), (0, 3), (1, 2), (1, 3), (2, 3)):
        o = [0, 1, 2, 3]
        o[a], o[b] = o[b], o[a]
        c2 = Call(run, funcs, r'^signed_volume_tet$', [v[k] for k in o])
        st2, val2 = c2.single()
        decide(run, 'signed_volume_tet', 'antisymmetric under swap (%d %d)' % (a, b), H + hyps_of(st2), to_z3(val2) == -to_z3(val), vs)
    # documented sign: positive if v0,v1,v2 are counter-clockwise as seen from v3 (the crate's own example 0,X,Y,Z)
    from fractions import Fraction as F
    ex = [Agg('DVec3', [F(a), F(b), F(cc)]) for a, b, cc in ((0, 0, 0), (1, 0, 0), (0, 1, 0), (0, 0, 1))]
    st3, val3 = Call(run, funcs, r'^signed_volume_tet$', ex).single()
    if val3 != F(1, 6):
        run.suspect.append('signed_volume_tet(0,X,Y,Z) evaluates to %r in the encoding, documented 1/6' % (val3,))
    run.samples.append({'signed_volume_tet(0,X,Y,Z)': str(val3)})

    # ---- signed_area_tri
    v0, v1, v2, t = rvec('v0'), rvec('v1'), rvec('v2'), rvec('t')
    c = Call(run, funcs, r'^signed_area_tri$', [v0, v1, v2, t])
    st, val = c.single()
    H = hyps_of(st)
    vs = all_vars(v0, v1, v2, t)
    nrm = cross(vsub(v1, v0), vsub(v2, v0))
    run.guard(decide, 'signed_area_tri', 'value^2 = |(v1-v0)x(v2-v0)|^2 / 4', H, to_z3(val) * to_z3(val) * 4 == zdot(nrm, nrm), vs)
    side = zdot(vsub(t, v0), nrm)
    decide(run, 'signed_area_tri', 'sign = side of t (positive if counter-clockwise seen from t)', H,
           z3.And(z3.Implies(side > 0, to_z3(val) >= 0), z3.Implies(side < 0, to_z3(val) <= 0)), vs)
    st2, val2 = Call(run, funcs, r'^signed_area_tri$', [v0, v2, v1, t]).single()
    decide(run, 'signed_area_tri', 'antisymmetric in (v1,v2) when t is off the plane', H + hyps_of(st2) + [side != 0],
           to_z3(val2) == -to_z3(val), vs)
    run.guard(side_obligations, 'C19 signed_area_tri', st, [])

    # ---- spheres
    a, b, cc, d = rvec('a'), rvec('b'), rvec('c'), rvec('d')
    st, s = Call(run, funcs, r'::from_two_points$', [a, b]).single()
    H = hyps_of(st)
    ctr, rad = s.items[sph_c], s.items[sph_r]
    vs = all_vars(a, b)
    for nm, pt in (('a', a), ('b', b)):
        decide(run, 'sphere2', '|c-%s|^2 = r^2' % nm, H, zdot(vsub(ctr, pt), vsub(ctr, pt)) == to_z3(rad) * to_z3(rad), vs)
    run.guard(decide, 'sphere2', 'centre is the midpoint, r >= 0', H, z3.And(veq(vadd(ctr, ctr), vadd(a, b)), to_z3(rad) >= 0), vs)

    ab = cross(vsub(a, cc), vsub(b, cc))
    pre = [zdot(ab, ab) != 0]
    c3 = Call(run, funcs, r'::from_three_points$', [a, b, cc], pre=pre)
    vs = all_vars(a, b, cc)
    for pk, (st, s) in enumerate(c3.outs):
        # every path of the function (a single one on the pinned tree) must satisfy the defining equations under its own path condition
        H = pre + hyps_of(st)
        ptag = '' if len(c3.outs) == 1 else ' [path %d]' % pk
        ctr, rad = s.items[sph_c], s.items[sph_r]
        # radius = 0.5 * sqrt(X): the encoder substitutes r^2 = X/4 (one structural check, then polynomial identities)
        sq, X = st.sqrts[-1] if st.sqrts else (None, None)
        structural = False
        if sq is not None:
            vstruct, _ = run.prove('C19 sphere3%s: radius = sqrt(X)/2 (structure of the radius term)' % ptag, H, z3.Not(to_z3(rad) * 2 == sq), timeout=30, on_sat='caller', cross=False)
            structural = vstruct == 'unsat'
            if not structural:
                run.obligations.pop()
        for nm, pt in (('a', a), ('b', b), ('c', cc)):
            if structural:
                decide(run, 'sphere3', '|c-%s|^2 = r^2 (r^2 = X/4 substituted)%s' % (nm, ptag), H, zdot(vsub(ctr, pt), vsub(ctr, pt)) * 4 == X, vs, timeout=120)
            else:
                decide(run, 'sphere3', '|c-%s|^2 = r^2%s' % (nm, ptag), H, zdot(vsub(ctr, pt), vsub(ctr, pt)) == to_z3(rad) * to_z3(rad), vs, timeout=120)
        decide(run, 'sphere3', 'centre in the plane of the points%s' % ptag, H, zdot(vsub(ctr, cc), ab) == 0, vs)
        side_obligations(run, 'C19 sphere3%s' % ptag, st, pre)
    if not c3.outs:
        run.inconclusive.append('Sphere::from_three_points: no normal path under the documented precondition')

    st, s = Call(run, funcs, r'::from_four_points$', [a, b, cc, d]).single()
    o3 = to_z3(dot(cross(vsub(b, a), vsub(cc, a)), vsub(d, a)))
    pre = [o3 != 0]
    H = pre + hyps_of(st)
    ctr, rad = s.items[sph_c], s.items[sph_r]
    vs = all_vars(a, b, cc, d)
    for nm, pt in (('a', a), ('b', b), ('c', cc), ('d', d)):
        decide(run, 'sphere4', '|c-%s|^2 = r^2' % nm, H, zdot(vsub(ctr, pt), vsub(ctr, pt)) == to_z3(rad) * to_z3(rad), vs, timeout=180)

    # ---- Sphere::extend: smallest sphere containing the old sphere and x
    ctr0, x, r0 = rvec('c'), rvec('x'), z3.Real('r')
    c = Call(run, funcs, r'geometry::.*::extend$', [mk_sphere(ctr0, r0), x], pre=[r0 > 0])
    vs = all_vars(ctr0, x) + [r0]
    dx = vsub(x, ctr0)
    d2 = zdot(dx, dx)
    pre = [r0 > 0]
    n_out = 0
    for st, s in c.outs:
        H = pre + hyps_of(st)
        ctr, rad = s.items[sph_c], s.items[sph_r]
        # which branch is this?  classified by what the path RETURNS (decided by the solver), not by a formula copied from the code
        vin, _ = run.prove('C19 sphere_extend path %d: does it return the sphere unchanged' % n_out, H, z3.Not(z3.And(veq(ctr, ctr0), to_z3(rad) == r0)), timeout=30,
                           on_sat='caller', cross=False)
        run.obligations.pop()      # classification query, not an obligation
        if vin == 'unsat':
            # unchanged is right only if x is inside the sphere (documented relative tolerance 1e-10 on r^2; 1e-9 granted here)
            decide(run, 'sphere_extend', 'sphere returned unchanged only if x is inside it: |x-c|^2 <= r^2 (1 + 1e-9)', H,
                   d2 <= r0 * r0 * z3.RealVal('1000000001') / z3.RealVal('1000000000'), vs,
                   prefer=[d2 >= 4 * r0 * r0] + [to_z3(t) == 0 for t in ctr0.items] + [to_z3(x.items[1]) == 0, to_z3(x.items[2]) == 0])
        else:
            dd = z3.Real('dist')
            Hd = H + [dd >= 0, dd * dd == d2]
            decide(run, 'sphere_extend', "x outside: r' = (r + d)/2", Hd, to_z3(rad) * 2 == r0 + dd, vs + [dd], timeout=120)
            cc_ = vsub(ctr, ctr0)
            decide(run, 'sphere_extend', "x outside: |c'-c| = (d - r)/2 (internally tangent to the old sphere)", Hd,
                   zdot(cc_, cc_) * 4 == (dd - r0) * (dd - r0), vs + [dd], timeout=120)
            cx = vsub(ctr, x)
            decide(run, 'sphere_extend', "x outside: |c'-x| = r' (through x)", Hd, zdot(cx, cx) == to_z3(rad) * to_z3(rad), vs + [dd], timeout=120)
        n_out += 1
    if n_out != 2:
        run.inconclusive.append('Sphere::extend: expected 2 paths (inside / outside), got %d' % n_out)

    sphere_contains(run, funcs, 'C19')

    # ---- in_sphere_test (float version) has the same polynomial as the C10 reference
    from . import insphere
    pts = {nm: rvec(nm) for nm in 'abcdv'}
    st, val = Call(run, funcs, r'^in_sphere_test$', [pts[nm] for nm in 'abcdv']).single()
    P = {nm: list(pts[nm].items) for nm in 'abcdv'}
    run.guard(decide, 'insphere_float', 'equals the lifted 4x4 determinant', hyps_of(st), to_z3(val) == insphere.ref_det(P), all_vars(*pts.values()))

    run.assume('f64 arithmetic read as exact real arithmetic: rounding error, overflow and NaN are outside the claim')
    run.assume('documented preconditions: linearly independent normals, affinely independent points, positive radius')
    return run.finish(LEVEL, EXPLANATION, trusted=['rustc -Zunpretty=mir', 'z3 5.1.0 / 4.8.12, cvc5 1.0.3', 'glam model table of mirsym'])


def replay(path):
    d = json.load(open(path))
    bad, info = REPLAYERS[d['kind']](d['values'], d.get('profile', 'debug'))
    print(info)
    return 1 if bad else 0
