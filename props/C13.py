"""C13 - integrator and direct routes agree; symmetric = non-symmetric minus already reported faces (integrator side)."""
import json

import z3

from mirsym import engine
from mirsym.interp import to_z3
from . import C03, buildrules as BR, facerule as FR, staterules as SR

LEVEL = 'other'
EXPLANATION = ('From the MIR: the loop bodies of ConvexCell::compute_face_integrals and compute_face_integrals_sym are executed on the same '
               'harness list of tetrahedra (decompose() replaced by the list, the integral type by a recorder) for enumerated plane labels and '
               'symbolic indices / mask; z3 decides that the symmetric variant reports a plane iff the non-symmetric one does and the plane is '
               'not an unshifted plane towards a constructed lower-index neighbour, that results come in plane order with the plane\'s labels and '
               'that each tetrahedron reaches the integrator of its own plane exactly once. The face rule with mask = None and with an all-true '
               'mask is the same function (the only difference between Voronoi::build and Voronoi::from(&integrator) besides where the cells '
               'come from); the 1D/2D box normalisation is identical on both routes; the conversion closure hands each cell its own face vector '
               'and Some(cell_is_active). Bitwise equality with the r-tree route and of float sums is outside.')


def none_vs_all_true(run, funcs):
    for dim in FR.DIMS:
        for rs, ss in ((True, False), (True, True), (False, False)):
            a = FR.run_maybe_init_face(run, funcs, FR.RuleCase(dim, rs, ss, False))
            b = FR.run_maybe_init_face(run, funcs, FR.RuleCase(dim, rs, ss, True))
            Ca, Cb = FR.constructs(a), FR.constructs(b)
            k = z3.Int('k!all')
            alltrue = z3.ForAll([k], b['mask'](k))
            # avoid the quantifier: the rule reads the mask at most at index j
            run.prove('C13 face rule[%s,right=%s,shift=%s]: mask = None and an all-true mask construct the same faces' % (dim, rs, ss),
                      a['pre'] + [b['mask'](b['j']), b['mask'](b['idx'])], z3.Not(Ca == Cb), timeout=20, cross=False)


def twin_face_integrals(run, funcs):
    """C13.c: the face integral stored in the tessellation (VoronoiFaceIntegral) and the public AreaCentroidIntegral are the same function of
    the accumulated (area, moment), for EVERY accumulator (also zero / negative signed area) - and AreaIntegral's area is the same sum."""
    import re
    from .common import Call, rvec
    from .geomrules import veq
    area, cen, nrm = z3.Real('acc_area'), rvec('acc_cen'), rvec('acc_nrm')
    fv = lambda v, nm: v.items[engine.field_index('src/voronoi/voronoi_face.rs', 'VoronoiFaceIntegral', nm)]
    fa = lambda v, nm: v.items[engine.field_index('src/voronoi/integrals.rs', 'AreaCentroidIntegral', nm)]
    n1 = engine.find_fn_where(funcs, r'voronoi_face::<impl at [^>]*>::finalize$', 'VoronoiFaceIntegral')
    n2 = engine.find_fn_where(funcs, r'integrals::<impl at [^>]*>::finalize$', 'AreaCentroidIntegral')
    a = Call(run, funcs, '^' + re.escape(n1) + '$', [engine.make_struct('src/voronoi/voronoi_face.rs', 'VoronoiFaceIntegral', area=area, centroid=cen, normal=nrm)])
    b = Call(run, funcs, '^' + re.escape(n2) + '$', [engine.make_struct('src/voronoi/integrals.rs', 'AreaCentroidIntegral', area=area, centroid=cen)])
    from .common import hyps_of
    for ka, (sa, va) in enumerate(a.outs):
        for kb, (sb, vb) in enumerate(b.outs):
            H = hyps_of(sa) + hyps_of(sb)
            goal = z3.And(veq(fv(va, 'centroid'), fa(vb, 'centroid')), to_z3(fv(va, 'area')) == to_z3(fa(vb, 'area')))
            vv, m = run.prove('C13 finalize twins [stored path %d, integrator path %d]: VoronoiFaceIntegral and AreaCentroidIntegral give the same area and centroid for every accumulator'
                              % (ka, kb), H, z3.Not(goal), timeout=20, on_sat='caller')
            if vv == 'sat':
                av = float(engine.model_value(m, area))
                pl = {'kind': 'finalize_twins', 'area': av}
                bad = check_finalize_twins_native(pl)
                if bad:
                    run.violation('C13 ' + bad, engine.save_replay('C13', pl))
                else:
                    run.suspect.append('C13 finalize twins: counterexample (accumulated area %g) does not reproduce natively' % av)
    # collect twins
    v0, v1, v2, gen = rvec('v0'), rvec('v1'), rvec('v2'), rvec('gen')
    A = z3.Real('A')
    from .buildrules import rec
    c1 = engine.find_fn_where(funcs, r'voronoi_face::<impl at [^>]*>::collect$', 'VoronoiFaceIntegral')
    c2 = engine.find_fn_where(funcs, r'integrals::<impl at [^>]*>::collect$', 'AreaCentroidIntegral')
    x = Call(run, funcs, '^' + re.escape(c1) + '$', [engine.make_struct('src/voronoi/voronoi_face.rs', 'VoronoiFaceIntegral', area=area, centroid=cen, normal=nrm), v0, v1, v2, gen],
             by_ref=(0,), overrides={'signed_area_tri': rec('signed_area_tri', A)})
    y = Call(run, funcs, '^' + re.escape(c2) + '$', [engine.make_struct('src/voronoi/integrals.rs', 'AreaCentroidIntegral', area=area, centroid=cen), v0, v1, v2, gen],
             by_ref=(0,), overrides={'signed_area_tri': rec('signed_area_tri', A)})
    for kx, (sx, _) in enumerate(x.outs):
        for ky, (sy, _) in enumerate(y.outs):
            ax, ay = x.arg_after(sx, 0), y.arg_after(sy, 0)
            ex = [e[1] for e in sx.events if e[0] == 'signed_area_tri']
            ey = [e[1] for e in sy.events if e[0] == 'signed_area_tri']
            same_args = len(ex) == 1 and len(ey) == 1 and all(p is q for p, q in zip(ex[0], ey[0]))
            vv, m = run.prove('C13 collect twins [paths %d, %d]: VoronoiFaceIntegral and AreaCentroidIntegral accumulate the same area and moment from the same signed_area_tri call' % (kx, ky),
                              hyps_of(sx) + hyps_of(sy),
                              z3.Not(z3.And(z3.BoolVal(same_args), veq(fv(ax, 'centroid'), fa(ay, 'centroid')), to_z3(fv(ax, 'area')) == to_z3(fa(ay, 'area')))), timeout=20,
                              on_sat='caller')
            if vv == 'sat':
                pl = {'kind': 'finalize_twins', 'area': float(engine.model_value(m, A))}
                bad = check_finalize_twins_native(pl)
                if bad:
                    run.violation('C13 ' + bad, engine.save_replay('C13', pl))
                else:
                    run.suspect.append('C13 collect twins: counterexample (triangle area %g) does not reproduce natively' % pl['area'])
    if not x.outs or not y.outs:
        run.inconclusive.append('C13 collect twins: no normal path')


def check_finalize_twins_native(p, profile='debug'):
    """accumulate triangles whose signed areas sum to the requested sign through the real VoronoiFace and AreaCentroidIntegral"""
    lines = ['finalize_twins 1 0 0 0.3 1 0 0.3 0 1 0.3 0.2 0.2 0', 'finalize_twins 1 0 0 0.3 0 1 0.3 1 0 0.3 0.2 0.2 0',
             'finalize_twins 2 0 0 0.3 1 0 0.3 0 1 0.3 0 0 0.3 0 1 0.3 1 0 0.3 0.2 0.2 0',
             'finalize_twins 2 0 0 0.3 1 0 0.3 0 1 0.3 0.1 0.1 0.3 0.1 0.6 0.3 0.6 0.1 0.3 0.2 0.2 0',
             'finalize_twins 2 0 0 0.3 0 1 0.3 1 0 0.3 0.1 0.1 0.3 0.6 0.1 0.3 0.1 0.6 0.3 0.2 0.2 0',
             # the same at tiny and huge length scales (triangle areas 1e-19 / 1e+12): thresholds must be relative
             'finalize_twins 1 0 0 0.3 1e-9 0 0.3 0 1e-9 0.3 2e-10 2e-10 0', 'finalize_twins 1 0 0 0.3 0 1e-9 0.3 1e-9 0 0.3 2e-10 2e-10 0',
             'finalize_twins 2 0 0 0.3 1e-9 0 0.3 0 1e-9 0.3 1e-10 1e-10 0.3 6e-10 1e-10 0.3 1e-10 6e-10 0.3 2e-10 2e-10 0',
             'finalize_twins 1 0 0 0.3 1e6 0 0.3 0 1e6 0.3 2e5 2e5 0']
    for prof in ('debug', 'release'):
      for line in lines:
        o = engine.native([line], prof)[0]
        if o[0] != 'ok':
            return 'native finalize scenario panicked'
        v = [float(t) for t in o[1:9]]
        sc_ = max(abs(x) for x in v[1:4] + v[5:8] + [0.0]) or 1.0
        if v[0] != v[4] or any(abs(x - y) > 1e-12 * sc_ for x, y in zip(v[1:4], v[5:8])):
            return 'accumulated signed area %r: stored face (area, centroid) = %r but AreaCentroidIntegral gives %r [%s build]' % (v[0], v[0:4], v[4:8], prof)
    return None


def check(run):
    funcs, info = engine.load_mir('ibig')
    run.mir_info.append(info)
    run.guard(BR.check_face_loops, funcs, 'C13')
    run.guard(BR.check_cell_loop, funcs, 'C13')       # cell integrals through the integrator see the whole decomposition (volume / centroid as stored)
    run.guard(none_vs_all_true, funcs)
    run.guard(twin_face_integrals, funcs)
    run.guard(BR.check_normalisation, funcs, 'C13')
    run.guard(BR.check_integrator_closures, funcs, 'C13')
    run.guard(SR.integrator_with_faces, funcs, 'C13')   # Voronoi::from(&integrator.with_faces()) sees the same integrator
    run.assume('cells_map!/filter_map/zip/flatten/collect are order preserving (std semantics; modelled positionally)')
    run.assume('sequential build: rayon variants of the same closures are not encoded (see C09)')
    return run.finish(LEVEL, EXPLANATION, trusted=['rustc -Zunpretty=mir', 'z3 5.1.0 / 4.8.12, cvc5 1.0.3', 'std Option/Vec/iterator models of mirsym'])


def replay(path):
    d = json.load(open(path))
    if d['kind'] == 'face_rule_pair':
        return C03.replay(path)
    if d['kind'] in SR.NATIVE:
        return SR.replay(d)
    if d['kind'] == 'finalize_twins':
        bad = check_finalize_twins_native(d)
        print(bad)
        return 1 if bad else 0
    return BR.replay(d)
