"""C13 - integrator and direct routes agree; symmetric = non-symmetric minus already reported faces (integrator side)."""
import json

import z3

from mirsym import engine
from mirsym.interp import to_z3
from . import C03, buildrules as BR, facerule as FR, staterules as SR

LEVEL = 'other'
EXPLANATION = ('From the MIR: the loop bodies of ConvexCell::compute_face_integrals and compute_face_integrals_sym are executed on the same '
               'harness list of tetrahedra (decompose() replaced by the list, the integral type by a recorder) for enumerated plane labels and '
               'symbolic indices / mask; z3 decides that the symmetric variant reports a plane iff the non-symmetric one does and the plane is '
               'not an unshifted plane towards a constructed lower-index neighbour, that results come in plane order with the plane\'s labels and '
               'that each tetrahedron reaches the integrator of its own plane exactly once. The face rule with mask = None and with an all-true '
               'mask is the same function (the only difference between Voronoi::build and Voronoi::from(&integrator) besides where the cells '
               'come from); the 1D/2D box normalisation is identical on both routes; the conversion closure hands each cell its own face vector '
               'and Some(cell_is_active). Bitwise equality with the r-tree route and of float sums is outside.')


def none_vs_all_true(run, funcs):
    for dim in FR.DIMS:
        for rs, ss in ((True, False), (True, True), (False, False)):
            a = FR.run_maybe_init_face(run, funcs, FR.RuleCase(dim, rs, ss, False))
            b = FR.run_maybe_init_face(run, funcs, FR.RuleCase(dim, rs, ss, True))
            Ca, Cb = FR.constructs(a), FR.constructs(b)
            k = z3.Int('k!all')
            alltrue = z3.ForAll([k], b['mask'](k))
            # avoid the quantifier: the rule reads the mask at most at index j
            run.prove('C13 face rule[%s,right=%s,shift=%s]: mask = None and an all-true mask construct the same faces' % (dim, rs, ss),
                      a['pre'] + [b['mask'](b['j']), b['mask'](b['idx'])], z3.Not(Ca == Cb), timeout=20, cross=False)


def check(run):
    funcs, info = engine.load_mir('ibig')
    run.mir_info.append(info)
    BR.check_face_loops(run, funcs, 'C13')
    none_vs_all_true(run, funcs)
    BR.check_normalisation(run, funcs, 'C13')
    BR.check_integrator_closures(run, funcs, 'C13')
    SR.integrator_with_faces(run, funcs, 'C13')   # Voronoi::from(&integrator.with_faces()) sees the same integrator
    run.assume('cells_map!/filter_map/zip/flatten/collect are order preserving (std semantics; modelled positionally)')
    run.assume('sequential build: rayon variants of the same closures are not encoded (see C09)')
    return run.finish(LEVEL, EXPLANATION, trusted=['rustc -Zunpretty=mir', 'z3 5.1.0 / 4.8.12, cvc5 1.0.3', 'std Option/Vec/iterator models of mirsym'])


def replay(path):
    d = json.load(open(path))
    if d['kind'] == 'face_rule_pair':
        return C03.replay(path)
    if d['kind'] in SR.NATIVE:
        return SR.replay(d)
    return BR.replay(d)
