"""C10 - the exact in-sphere predicate returns the true sign on the integer grid; grid map range."""
import z3

from mirsym import engine
from . import insphere

LEVEL = 'other'
EXPLANATION = ('Bounded symbolic checking of the real code: the MIR of in_sphere_test_exact (ibig build) is executed symbolically with '
               'the big-integer API read as Z; z3 (cross-checked by cvc5 and z3 4.8.12) decides that the computed determinant equals the '
               '24-term Leibniz lifted determinant for all 15 coordinates in [0,2^52), that no i64 subtraction overflows there, and that the '
               'sign tail returns sgn(D) for every integer D; a circumsphere lemma ties the sign to inside/on/outside. The position->grid map '
               '(cuboid + iloc) is decided bit-precisely by Kani/CBMC harnesses on the compiled crate.')


def circumsphere_lemma(run):
    """C10.b: with o the circumcentre of a,b,c,d (|x-a|^2 = 2 (x-a).(o-a) for x in b,c,d):
    lifted_det = det3(b-a,c-a,d-a) * (|v-o|^2 - |a-o|^2).  Pure algebra over R (no code)."""
    R = lambda n: [z3.Real(n + c) for c in 'xyz']
    b, c, d, v, o = R('b'), R('c'), R('d'), R('v'), R('o')   # all relative to a (a = 0)
    dot = lambda p, q: sum(x * y for x, y in zip(p, q))
    # substitute the premises: |x|^2 := 2 x.o  for x in b,c,d (the congruence step is done here, by the encoder)
    cols = [b + [2 * dot(b, o)], c + [2 * dot(c, o)], d + [2 * dot(d, o)], v + [dot(v, v)]]
    rows = [[cols[k][r] for k in range(4)] for r in range(4)]
    lifted = insphere.det_leibniz(rows)
    det3 = insphere.det_leibniz([[b[0], c[0], d[0]], [b[1], c[1], d[1]], [b[2], c[2], d[2]]])
    vo = [x - y for x, y in zip(v, o)]
    rhs = det3 * (dot(vo, vo) - dot(o, o))
    run.prove('C10.b lifted_det = orient3 * (|v-o|^2 - r^2) for the circumcentre o', [], lifted != rhs, timeout=60)
    run.assume('C10.b: positively oriented means det3(b-a,c-a,d-a) > 0 in the column order of the code; then sign<0 <=> strictly inside, =0 <=> on the sphere')


def check(run):
    cands, P, code_det = insphere.check_backend(run, 'ibig', 'C10.a', thorough=(run.tier == 'thorough'))
    insphere.confirm_and_report(run, 'C10', cands, 'C10.a')
    circumsphere_lemma(run)
    run.assume('big-integer crate implements Z exactly (its arithmetic is not encoded)')
    run.assume('rustc MIR printer, z3/cvc5')
    return run.finish(LEVEL, EXPLANATION, trusted=['rustc -Zunpretty=mir', 'z3 5.1.0 / 4.8.12, cvc5 1.0.3', 'model table of mirsym (big integers as Z)', 'Kani 0.68 / CBMC 6.11'])


def replay(path):
    return insphere.replay_file(path)
