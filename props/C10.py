"""C10 - the exact in-sphere predicate returns the true sign on the integer grid; grid map range."""
import z3

import json

from mirsym import engine, kanirun
from mirsym.interp import Unsupported
from . import insphere, geomrules as GR
from .C05 import KANI_QUICK, KANI_THOROUGH

LEVEL = 'other'
EXPLANATION = ('Bounded symbolic checking of the real code: the MIR of in_sphere_test_exact (ibig build) is executed symbolically with '
               'the big-integer API read as Z; z3 (cross-checked by cvc5 and z3 4.8.12) decides that the computed determinant equals the '
               '24-term Leibniz lifted determinant for all 15 coordinates in [0,2^52), that no i64 subtraction overflows there, and that the '
               'sign tail returns sgn(D) for every integer D; a circumsphere lemma ties the sign to inside/on/outside. The position->grid map '
               '(cuboid + iloc) is decided bit-precisely by Kani/CBMC harnesses on the compiled crate.')


def circumsphere_lemma(run):
    """C10.b: with o the circumcentre of a,b,c,d (|x-a|^2 = 2 (x-a).(o-a) for x in b,c,d):
    lifted_det = det3(b-a,c-a,d-a) * (|v-o|^2 - |a-o|^2).  Pure algebra over R (no code)."""
    R = lambda n: [z3.Real(n + c) for c in 'xyz']
    b, c, d, v, o = R('b'), R('c'), R('d'), R('v'), R('o')   # all relative to a (a = 0)
    dot = lambda p, q: sum(x * y for x, y in zip(p, q))
    # substitute the premises: |x|^2 := 2 x.o  for x in b,c,d (the congruence step is done here, by the encoder)
    cols = [b + [2 * dot(b, o)], c + [2 * dot(c, o)], d + [2 * dot(d, o)], v + [dot(v, v)]]
    rows = [[cols[k][r] for k in range(4)] for r in range(4)]
    lifted = insphere.det_leibniz(rows)
    det3 = insphere.det_leibniz([[b[0], c[0], d[0]], [b[1], c[1], d[1]], [b[2], c[2], d[2]]])
    vo = [x - y for x, y in zip(v, o)]
    rhs = det3 * (dot(vo, vo) - dot(o, o))
    run.prove('C10.b lifted_det = orient3 * (|v-o|^2 - r^2) for the circumcentre o', [], lifted != rhs, timeout=60)
    run.assume('C10.b: positively oriented means det3(b-a,c-a,d-a) > 0 in the column order of the code; then sign<0 <=> strictly inside, =0 <=> on the sphere')


def orientation_of_initial_duals(run, funcs):
    """C10.e: the eight dual triples of ConvexCell::init are positively oriented in the column order of the predicate:
    for a generator strictly inside the box, det3(b-a, c-a, d-a) > 0 where b,c,d are the mirror images through the three walls of the dual"""
    import z3
    from .cliprules import init_duals_from_mir
    duals = init_duals_from_mir(funcs)
    lo = [z3.Real('lo%d' % k) for k in range(3)]
    hi = [z3.Real('hi%d' % k) for k in range(3)]
    g = [z3.Real('g%d' % k) for k in range(3)]
    pre = [lo[k] < g[k] for k in range(3)] + [g[k] < hi[k] for k in range(3)]

    def mirror(plane):
        ax, upper = plane // 2, plane % 2
        wall = hi[ax] if upper else lo[ax]
        return [2 * wall - g[k] if k == ax else g[k] for k in range(3)]
    conds = []
    for d in duals:
        cols = [[m[k] - g[k] for k in range(3)] for m in (mirror(d[0]), mirror(d[1]), mirror(d[2]))]
        rows = [[cols[c][r] for c in range(3)] for r in range(3)]
        conds.append(insphere.det_leibniz(rows) > 0)
    run.prove('C10.e the eight initial vertices (duals read from the MIR of ConvexCell::init) are positively oriented for every generator strictly inside the box',
              pre, z3.Not(z3.And(conds)), timeout=30, sample={'duals': duals})


def check(run):
    try:
        cands, P, code_det = insphere.check_backend(run, 'ibig', 'C10.a', thorough=(run.tier == 'thorough'))
        insphere.confirm_and_report(run, 'C10', cands, 'C10.a')
    except Unsupported as e:
        # the exact path contains an operation outside the big-integer model (e.g. floating point): the encoding cannot be built.
        # Inconclusive by design - unless the real function already disagrees with the exact reference on the validation samples.
        bad = insphere.native_vs_reference(run.seed, 3000)
        if bad:
            insphere.confirm_and_report(run, 'C10', bad[:3], 'C10.a (encoding not buildable: %s)' % str(e)[:80])
        else:
            run.inconclusive.append('C10.a: %s' % e)
    run.guard(circumsphere_lemma)
    funcs, _ = engine.load_mir('ibig')
    run.guard(orientation_of_initial_duals, funcs)
    run.guard(GR.cuboid, funcs, 'C10')
    run.guard(GR.right_loc, funcs, 'C10')
    kanirun.run(run, 'C10', [h for h in (KANI_QUICK if run.tier == 'quick' else KANI_THOROUGH) if h['name'].startswith('iloc')], jobs=12)
    run.bound('grid map, bit-precise (Kani): see kani_harnesses[].bounds; monotonicity: not decided bit-precisely (harness did not finish in 20 min) - over the reals the map is affine with positive slope (cuboid obligation)')
    run.assume('big-integer crate implements Z exactly (its arithmetic is not encoded)')
    run.assume('rustc MIR printer, z3/cvc5')
    return run.finish(LEVEL, EXPLANATION, trusted=['rustc -Zunpretty=mir', 'z3 5.1.0 / 4.8.12, cvc5 1.0.3', 'model table of mirsym (big integers as Z)', 'Kani 0.68 / CBMC 6.11'])


def replay(path):
    d = json.load(open(path))
    if d['kind'] == 'kani_playback':
        return kanirun.replay('C10', path)
    if d['kind'] == 'insphere_exact':
        return insphere.replay_file(path)
    return GR.replay(d)
