"""C06 - periodic boundaries (mechanisms): image enumeration, shift convention, tripled box, neighbour position, builder loop."""
import json

from mirsym import engine
from . import nnrules, geomrules as GR

LEVEL = 'other'
EXPLANATION = ('Mechanisms of the periodic tessellation, each taken from the MIR and decided by z3 over symbolic boxes/positions/shifts: the '
               'neighbour search enumerates exactly the 3^d lattice shifts {-w,0,w}^d (zero on inactive axes), closed under negation; the reported '
               'shift is minus the query shift and absent iff zero; the initial cell is tripled exactly on the active axes; a neighbour plane\'s '
               'right point is generator + shift; one iteration of ConvexCell::build clips by the bisector of every candidate within the safety '
               'radius - including images of the cell\'s own generator - with the plane labelled (index, shift). Equality with the 3^d-replicated '
               'tessellation and translation invariance are consequences for the whole float pipeline and are outside.')


def check(run):
    funcs, info = engine.load_mir('ibig')
    run.mir_info.append(info)
    run.guard(nnrules.shift_reciprocity, funcs, 'C06')
    run.guard(GR.cuboid, funcs, 'C06')
    run.guard(GR.right_loc, funcs, 'C06')
    run.guard(GR.build_loop, funcs, 'C06')
    run.guard(GR.build_loop_multi, funcs, 'C06')
    from . import C03
    run.guard(C03.pair_obligations, funcs, 'C06')    # every periodic (shifted) plane yields its own face, whatever the mask: faces through the wrap come in reciprocal pairs
    run.assume('f64 read as exact reals; whole-pipeline consequences (replicated tessellation, no wall faces on periodic axes) outside')
    return run.finish(LEVEL, EXPLANATION, trusted=['rustc -Zunpretty=mir', 'z3 5.1.0 / 4.8.12, cvc5 1.0.3', 'glam / std models of mirsym'])


def replay(path):
    d = json.load(open(path))
    if d['kind'] == 'nn_images':
        return nnrules.replay(d)
    if d['kind'] == 'face_rule_pair':
        from . import C03
        return C03.replay(path)
    return GR.replay(d)
