"""C20 - auxiliary structures (leaf lemmas): uniform grid geometry and indices, pruning bounds, sphere extension steps."""
import json
import itertools
from fractions import Fraction

import z3

from mirsym import engine
from mirsym.engine import Inconclusive
from mirsym.interp import Agg, Var, Ref, State, Opaque, UNIT, INF, to_z3, is_z3
from .common import Call, rvec, none, some, hyps_of, zdot, vsub, vadd, side_obligations, model_floats, all_vars
from .buildrules import rec, pcs

LEVEL = 'other'
EXPLANATION = ('Leaf lemmas of the (crate-private) reference structures, from the MIR and decided by z3: Space::new places grid cell (i,j,k) at '
               'anchor + (i cw.x, j cw.y, k cw.z) with width cw = width / cdim in row-major order (non-cubic cells); get_cid is the row-major bijection '
               'and None outside; get_r_ring is exactly the in-range Chebyshev ring (concrete grid 2x3x2, r <= 2, executed through the interpreter); '
               'Cell::closest_loc is the nearest point of the cell so that min_distance_squared is a lower bound for every point of the cell '
               '(admissible pruning), min_distance_to_face is a lower bound for every point outside; one iteration of the sphere-of-spheres extension '
               'of Epos6 yields a sphere containing the previous one and the new one. The kNN ring loop with its heap, the Welzl recursion and '
               'minimality are not encoded.')

CDIM = (2, 3, 2)


def space_new(run, funcs):
    anchor, width = rvec('anchor'), rvec('width')
    mcw = z3.Real('max_cell_width')

    def ceil(i, st, a, c):
        v = a[0]
        for x, n in zip(v.items, CDIM):
            st.pc.append(z3.And(to_z3(x) <= n, to_z3(x) > n - 1))
        return Agg('DVec3', [Fraction(n) for n in CDIM])
    pre = [w > 0 for w in width.items] + [mcw > 0]
    c = Call(run, funcs, r'^space::<impl at [^>]*>::new$', [anchor, width, mcw], overrides={'DVec3::ceil': ceil}, pre=pre)
    st, sp = c.single()
    H = pre + hyps_of(st)
    sf = lambda v, nm: v.items[engine.field_index('src/space.rs', 'Space', nm)]
    cf = lambda v, nm: v.items[engine.field_index('src/space.rs', 'Cell', nm)]
    cells = sf(sp, 'cells').items
    if len(cells) != CDIM[0] * CDIM[1] * CDIM[2]:
        run.suspect.append('C20 Space::new: %d cells for cdim %r' % (len(cells), CDIM))
        return
    conds = []
    for i, j, k in itertools.product(range(CDIM[0]), range(CDIM[1]), range(CDIM[2])):
        cid = i * CDIM[1] * CDIM[2] + j * CDIM[2] + k
        cell = cells[cid]
        for ax, m in enumerate((i, j, k)):
            cw = width.items[ax] / CDIM[ax]
            conds.append(to_z3(cf(cell, 'loc').items[ax]) == anchor.items[ax] + m * cw)
            conds.append(to_z3(cf(cell, 'width').items[ax]) == cw)
    vv, m = run.prove('C20 Space::new (cdim 2x3x2, symbolic anchor/width): cell (i,j,k) at anchor + (i cw.x, j cw.y, k cw.z), width cw, row-major order',
                      H, z3.Not(z3.And(conds)), timeout=30, on_sat='caller')
    if vv == 'sat':
        pl = {'kind': 'space_cells'}
        bad = check_space_cells_native(pl)
        if bad:
            run.violation('C20 Space::new: ' + bad, engine.save_replay('C20', pl))
        else:
            run.suspect.append('C20 Space::new: counterexample does not reproduce natively')
    run.bound('Space::new: grid of 2 x 3 x 2 cells (ceil of width / max_cell_width assumed to be (2,3,2)), symbolic anchor, width, max cell width')
    return sp


def check_space_cells_native(p, profile='debug'):
    o = engine.native(['space_cells 1 2 3 1 1.5 0.8 0.6'], profile)[0]       # cdim = ceil(1/.6, 1.5/.6, .8/.6) = (2,3,2), cw = (.5,.5,.4)
    if o[0] != 'ok':
        return 'panicked'
    v = [float(x) for x in o[1:]]
    cd = [int(x) for x in v[:3]]
    if cd != [2, 3, 2]:
        return 'cdim %r' % cd
    k = 4
    for i, j, kk in itertools.product(range(2), range(3), range(2)):
        loc = v[k:k + 3]; w = v[k + 3:k + 6]; k += 6
        exp = [1 + i * 0.5, 2 + j * 0.5, 3 + kk * 0.4]
        if any(abs(a - b) > 1e-12 for a, b in zip(loc, exp)) or any(abs(a - b) > 1e-12 for a, b in zip(w, (0.5, 0.5, 0.4))):
            return 'grid cell (%d,%d,%d) of a 1 x 1.5 x 1 box split 2x3x2 is at %r with width %r, expected %r / 0.5' % (i, j, kk, loc, w, exp)
    return None


def space_value(cdim):
    return engine.make_struct('src/space.rs', 'Space', anchor=rvec('anchor'), width=rvec('width'), cdim=Agg('UVec3', cdim), cells=Agg('Vec', ()), parts=Agg('Vec', ()))


def get_cid(run, funcs):
    i, j, k = z3.Int('i'), z3.Int('j'), z3.Int('k')
    cd = (3, 2, 4)
    c = Call(run, funcs, r'^space::<impl at [^>]*>::get_cid$', [space_value(cd), i, j, k], by_ref=(0,),
             pre=[i >= -5, i <= 8, j >= -5, j <= 8, k >= -5, k <= 8])
    inr = z3.And(i >= 0, j >= 0, k >= 0, i < cd[0], j < cd[1], k < cd[2])
    cov = []
    for n, (st, v) in enumerate(c.outs):
        H = hyps_of(st)
        cov.append(z3.And(pcs(st) + [z3.BoolVal(True)]))
        if v.name == 'None':
            run.prove('C20 get_cid path %d: None only outside the grid' % n, H, inr, timeout=20)
        else:
            run.prove('C20 get_cid path %d: Some(row-major index) exactly inside the grid' % n, H,
                      z3.Not(z3.And(inr, to_z3(v.items[0]) == i * cd[1] * cd[2] + j * cd[2] + k)), timeout=20)
        for (pc, cond, msg, where) in st.asserts:
            run.prove('C20 get_cid: arithmetic cannot overflow (%s)' % msg[:30], list(pc) + [i >= -5, i <= 8, j >= -5, j <= 8, k >= -5, k <= 8], z3.Not(cond), timeout=10, cross=False)
    run.prove('C20 get_cid: total', [i >= -5, i <= 8, j >= -5, j <= 8, k >= -5, k <= 8], z3.Not(z3.Or(cov)), timeout=10, cross=False)
    run.bound('get_cid: grid 3 x 2 x 4, symbolic indices in [-5, 8]')


def r_ring(run, funcs):
    cd = (2, 3, 2)
    n = 0
    bad = 0
    for cid in range(cd[0] * cd[1] * cd[2]):
        ci, cj, ck = cid // (cd[1] * cd[2]), (cid % (cd[1] * cd[2])) // cd[2], cid % cd[2]
        for r in (0, 1, 2):
            c = Call(run, funcs, r'^space::<impl at [^>]*>::get_r_ring$', [space_value(cd), cid, r], by_ref=(0,))
            st, v = c.single()
            got = sorted(v.items)
            exp = sorted(i * cd[1] * cd[2] + j * cd[2] + k for i in range(cd[0]) for j in range(cd[1]) for k in range(cd[2])
                         if max(abs(i - ci), abs(j - cj), abs(k - ck)) == r)
            n += 1
            if got != exp or len(set(v.items)) != len(v.items):
                bad += 1
                run.suspect.append('C20 get_r_ring(cid=%d, r=%d) on a 2x3x2 grid = %r, expected the Chebyshev ring %r' % (cid, r, got, exp))
    run.obligations.append({'name': 'C20 get_r_ring: exactly the in-range cells at Chebyshev distance r (2x3x2 grid, all 12 cells, r = 0,1,2; %d concrete executions of the MIR)' % n,
                            'expect': 'unsat', 'verdict': 'unsat' if not bad else 'sat', 'solver': 'concrete execution through the interpreter', 'solver_s': 0.0})


def cell_bounds(run, funcs):
    loc, width, pos, y = rvec('cl'), rvec('cw'), rvec('pos'), rvec('y')
    cell = engine.make_struct('src/space.rs', 'Cell', loc=loc, width=width, offset=0, count=0)
    pre = [w > 0 for w in width.items]
    inside = lambda p: z3.And([z3.And(p.items[k] >= loc.items[k], p.items[k] <= loc.items[k] + width.items[k]) for k in range(3)])
    c = Call(run, funcs, r'^space::<impl at [^>]*>::min_distance_squared$', [cell, pos], by_ref=(0,), pre=pre)
    for n, (st, v) in enumerate(c.outs):
        H = pre + hyps_of(st)
        dy = vsub(y, pos)
        vv, m = run.prove('C20 Cell::min_distance_squared path %d: lower bound of the squared distance to every point of the cell (admissible pruning)' % n,
                          H + [inside(y)], z3.Not(to_z3(v) <= zdot(dy, dy)), timeout=60, on_sat='caller')
        if vv == 'sat':
            vals = model_floats(m, all_vars(loc, width, pos, y))
            pl = {'kind': 'cell_min_distance', 'vals': vals}
            bad = check_cell_min_distance_native(pl)
            if bad:
                run.violation('C20 Cell::min_distance_squared: ' + bad, engine.save_replay('C20', pl))
            else:
                run.suspect.append('C20 Cell::min_distance_squared: counterexample does not reproduce natively (%r)' % vals)
        run.prove('C20 Cell::min_distance_squared path %d: zero for points inside the cell' % n, H + [inside(pos)], z3.Not(to_z3(v) == 0), timeout=30, cross=False)
    c = Call(run, funcs, r'^space::<impl at [^>]*>::min_distance_to_face$', [cell, pos], by_ref=(0,), pre=pre + [inside(pos)])
    for n, (st, v) in enumerate(c.outs):
        H = pre + [inside(pos)] + hyps_of(st)
        dy = vsub(y, pos)
        run.prove('C20 Cell::min_distance_to_face path %d: every point strictly closer than this distance is inside the cell' % n,
                  H + [zdot(dy, dy) < to_z3(v) * to_z3(v), to_z3(v) >= 0], z3.Not(inside(y)), timeout=60)


def check_cell_min_distance_native(p, profile='debug'):
    """the real Cell::min_distance_squared on a single-cell grid [loc, loc+width] against the exact distance to the box"""
    v = p['vals']
    g = lambda n: [v['%s_%s' % (n, c)] for c in 'xyz']
    loc, w, pos = g('cl'), g('cw'), g('pos')
    cases = [(loc, w, pos)]
    # structured positions around the box: beyond each upper face and each lower face
    for ax in range(3):
        for sgn in (1, -1):
            q = [loc[k] + 0.5 * w[k] for k in range(3)]
            q[ax] = loc[ax] + w[ax] * (1.7 if sgn > 0 else -0.7)
            cases.append((loc, w, q))
    cases.append(([0.0, 0.0, 0.0], [1.0, 0.45, 0.5], [0.25, 0.1, 0.9]))
    for (l, ww, q) in cases:
        f = lambda t: ' '.join(engine.f2s(x) for x in t)
        o = engine.native(['cell_min_dist %s %s %s' % (f(l), f(ww), f(q))], profile)[0]
        if o[0] != 'ok':
            continue
        d2 = float(o[4])
        exact = sum(max(l[k] - q[k], 0.0, q[k] - (l[k] + ww[k])) ** 2 for k in range(3))
        if d2 > exact * (1 + 1e-12) + 1e-300:
            return 'Cell [%r, +%r]: min_distance_squared(%r) = %.12g exceeds the true squared distance %.12g to the cell (a cell holding a closer particle would be pruned)' % (l, ww, q, d2, exact)
    return None


def epos6_extension(run, funcs, nspheres=1):
    """one (two) iteration(s) of the extension loop of Epos6::bounding_sphere_of_spheres from an arbitrary starting sphere"""
    mk = lambda c, r: engine.make_struct('src/geometry.rs', 'Sphere', center=c, radius=r)
    sc = engine.field_index('src/geometry.rs', 'Sphere', 'center')
    sr = engine.field_index('src/geometry.rs', 'Sphere', 'radius')
    cs = [rvec('sc%d' % k) for k in range(nspheres)]
    rs = [z3.Real('sr%d' % k) for k in range(nspheres)]
    c0, r0 = rvec('bc'), z3.Real('br')
    spheres = Agg('array', [mk(cs[k], rs[k]) for k in range(nspheres)])
    bound = 10 ** 6
    pre = [r >= 0 for r in rs] + [r0 >= 0, INF > 10 ** 9]
    # reachable pre-states only: no input sphere strictly contains the current bounding sphere (it contains surface points of the spheres that
    # attain the coordinate minima; see DESIGN.md C20) - stated for the first iteration, where it is r <= r0 + |c - c0|
    d0 = vsub(cs[0], c0)
    pre += [z3.Or(rs[0] <= r0, (rs[0] - r0) * (rs[0] - r0) <= zdot(d0, d0))]
    for v in all_vars(*cs) + rs:
        pre += [v <= bound, v >= -bound]
    ov = {'<Welzl as BoundingSphereSolver>::bounding_sphere': rec('welzl', mk(c0, r0))}
    cands = [n for n in funcs if n.endswith('::bounding_sphere_of_spheres') and len(funcs[n].blocks) > 10]
    if len(cands) != 1:
        raise Inconclusive('Epos6::bounding_sphere_of_spheres not found uniquely: %r' % cands)
    import re
    c = Call(run, funcs, '^' + re.escape(cands[0]) + '$', [spheres], by_ref=(0,), overrides=ov, pre=pre, interp_kw={'max_paths': 5000})
    n = 0
    for st, res in c.outs:
        H = pre + hyps_of(st)
        C, R = res.items[sc], to_z3(res.items[sr])
        # containment of sphere (c, r) in (C, R):  |c - C| + r <= R   <=>   r <= R  and  |c - C|^2 <= (R - r)^2
        def contains(cc, rr):
            d = vsub(cc, C)
            return z3.And(rr <= R, zdot(d, d) <= (R - rr) * (R - rr))
        goal = z3.And([contains(c0, r0)] + [contains(cs[k], rs[k]) for k in range(nspheres)])
        vv, m = run.prove('C20 Epos6 sphere-of-spheres extension path %d: the result contains the starting sphere and every input sphere' % n, H, z3.Not(goal),
                          timeout=60, on_sat='caller', cross=(n < 2))
        if vv == 'sat':
            pl = {'kind': 'epos6_spheres'}
            bad = check_epos6_native(pl)
            if bad:
                run.violation('C20 Epos6::bounding_sphere_of_spheres: ' + bad, engine.save_replay('C20', pl))
            else:
                run.suspect.append('C20 Epos6 extension: counterexample does not reproduce natively')
            break
        side_obligations(run, 'C20 Epos6 extension', st, pre + [zdot(vsub(cs[0], c0), vsub(cs[0], c0)) > 0])
        n += 1
    run.bound('Epos6 extension: %d input sphere(s), arbitrary starting sphere (the Welzl result is replaced by a symbolic sphere), |coordinates| <= 1e6' % nspheres)


def check_epos6_native(p, profile='debug'):
    """one dominant sphere with small spheres inside / slightly poking out: the result must contain every input sphere"""
    import math
    scen = [[((0, 0, 0), 1.0), ((0.3, 0.2, 0.1), 0.1), ((-0.2, 0.4, -0.3), 0.05)],
            [((1, 2, 3), 3.0), ((3.5, 2, 3), 0.7), ((1, -0.5, 3), 0.6), ((1, 2, 5.8), 0.4)],
            [((0, 0, 0), 0.5), ((2, 0, 0), 0.5), ((0, 2, 0), 0.5), ((0, 0, 2), 0.5)]]
    for sp in scen:
        line = 'epos6_spheres %d %s' % (len(sp), ' '.join('%r %r %r %r' % (c[0], c[1], c[2], r) for c, r in sp))
        o = engine.native([line], profile)[0]
        if o[0] != 'ok':
            return 'panicked: ' + ' '.join(o[1:8])
        C = [float(x) for x in o[1:4]]
        R = float(o[4])
        for k, (c, r) in enumerate(sp):
            reach = math.dist(C, c) + r
            if reach > R * (1 + 1e-9):
                return 'input sphere %d (centre %r, radius %g) sticks out of the bounding sphere (centre %r, radius %g): reach %g' % (k, c, r, C, R, reach)
    return None


def welzl_small(run, funcs, sizes=(2, 3)):
    """the exact solver (Welzl recursion with from_boundary_points, contains) executed from the MIR on N symbolic, pairwise distinct points:
    on every path the returned sphere contains all N points (relative tolerance 1e-9 on r^2), has at least two of them on its boundary, and for
    N = 2 is the sphere with the two points as antipodes (the minimal one)"""
    name = [n for n in funcs if n.endswith('::bounding_sphere') and 'bounding_sphere_recursive' not in n and any('DVec3' in ty for _, ty in funcs[n].params)]
    wel = [n for n in name if _impl_of(funcs, n) == 'Welzl']
    if len(wel) != 1:
        raise engine.Inconclusive('Welzl::bounding_sphere not identified: %r' % name)
    sc = engine.field_index('src/geometry.rs', 'Sphere', 'center')
    sr = engine.field_index('src/geometry.rs', 'Sphere', 'radius')
    for N in sizes:
        pts = [rvec('wp%d' % k) for k in range(N)]
        pre = []
        for a in range(N):
            for b in range(a):
                d = vsub(pts[a], pts[b])
                pre.append(zdot(d, d) != 0)
        if N >= 3:
            from mirsym.models import cross
            ab = cross(vsub(pts[0], pts[2]), vsub(pts[1], pts[2]))
            pre.append(zdot(ab, ab) != 0)           # not collinear (documented non-degeneracy of from_three_points)
        interp = engine.new_interp(funcs, max_visits=800000, max_paths=20000)
        st = State()
        st.heap[1] = Agg('array', pts)
        st.pc.extend(pre)
        outs = interp.exec_fn(st, wel[0], [Ref(('H', 1))], {})
        run.add_functions(interp, funcs)
        if not outs:
            run.inconclusive.append('C20 Welzl on %d points: no normal path' % N)
        for k, (s, v) in enumerate(outs):
            H = pre + hyps_of(s)
            c, r = v.items[sc], to_z3(v.items[sr])
            d2 = [zdot(vsub(p, c), vsub(p, c)) for p in pts]
            tol = z3.RealVal('1000000001') / z3.RealVal('1000000000')
            goal = z3.And([r > 0] + [x <= r * r * tol for x in d2])
            vv, m = run.prove('C20 Welzl on %d points, path %d: the returned sphere contains every point' % (N, k), H, z3.Not(goal), timeout=60, on_sat='caller')
            if vv == 'sat':
                vals = [[float(engine.model_value(m, to_z3(x))) for x in p.items] for p in pts]
                pl = {'kind': 'welzl_points', 'points': vals}
                bad = check_welzl_native(pl)
                if bad:
                    run.violation('C20 Welzl: ' + bad, engine.save_replay('C20', pl))
                else:
                    run.suspect.append('C20 Welzl on %d points: counterexample %r does not reproduce natively' % (N, vals))
            on = [z3.And(x <= r * r * tol, x * tol >= r * r) for x in d2]
            run.prove('C20 Welzl on %d points, path %d: at least two points lie on the boundary of the returned sphere' % (N, k), H,
                      z3.Not(z3.Or([z3.And(on[a], on[b]) for a in range(N) for b in range(a)])), timeout=60, cross=False)
            if N == 2:
                dd = vsub(pts[0], pts[1])
                run.prove('C20 Welzl on 2 points: the two points are antipodes (4 r^2 = |p0 - p1|^2): the minimal sphere', H, z3.Not(4 * r * r == zdot(dd, dd)), timeout=60, cross=False)
    # a single point: the smallest enclosing sphere is the point itself (radius 0)
    p0 = rvec('wp_single')
    interp = engine.new_interp(funcs, max_visits=100000)
    st = State()
    st.heap[1] = Agg('array', [p0])
    for k, (s, v) in enumerate(interp.exec_fn(st, wel[0], [Ref(('H', 1))], {})):
        c, r = v.items[sc], to_z3(v.items[sr])
        dd = zdot(vsub(p0, c), vsub(p0, c))
        vv, m = run.prove('C20 Welzl on a single point, path %d: the returned sphere contains the point (|c - p|^2 <= r^2)' % k, hyps_of(s), z3.Not(dd <= r * r), timeout=30,
                          on_sat='caller', cross=False)
        if vv == 'sat':
            o = engine.native(['welzl 1 1 2 3'], 'debug')[0]
            c_, r_ = [float(x) for x in o[1:4]], float(o[4])
            if o[0] == 'ok' and sum((a - b) ** 2 for a, b in zip((1.0, 2.0, 3.0), c_)) > r_ * r_:
                what = 'Welzl::bounding_sphere(&[(1,2,3)]) = centre %r radius %r does not contain the point' % (c_, r_)
                known = [kf for kf in engine.load_known('C20') if kf['key'] == 'welzl-single-point']
                if known:
                    run.known_seen.append('welzl-single-point: ' + what)
                else:
                    run.violation('C20 ' + what, engine.save_replay('C20', {'kind': 'welzl_points', 'points': [[1.0, 2.0, 3.0]]}))
            else:
                run.suspect.append('C20 Welzl on a single point: counterexample does not reproduce natively')
    run.bound('Welzl: N in %r symbolic pairwise distinct (N = 3: non-collinear) points; every path of the recursion' % (tuple(sizes),))


def _impl_of(funcs, name):
    import re
    m = re.search(r'<impl at (src/[^:]+):(\d+):(\d+)', name)
    if not m:
        return None
    src = open('%s/%s' % (engine.REPO, m.group(1))).read().split('\n')
    line = src[int(m.group(2)) - 1]
    mm = re.search(r'for (\w+)', line) or re.search(r'impl (\w+)', line)
    return mm.group(1) if mm else None


def check_welzl_native(p, profile='debug'):
    pts = p['points']
    sets = ([pts] if len(pts) > 1 else []) + [[[0.1, 0.2, 0.3], [0.7, 0.1, 0.5]], [[0.1, 0.2, 0.3], [0.7, 0.1, 0.5], [0.4, 0.9, 0.2]], [[1e-7, 2e-7, 3e-7], [7e-7, 1e-7, 5e-7], [4e-7, 9e-7, 2e-7]],
            [[0.0, 0.0, 0.0], [1.0, 0.0, 0.0], [0.5, 0.01, 0.0]]]
    for ps in sets:
        line = 'welzl %d %s' % (len(ps), ' '.join(' '.join(engine.f2s(x) for x in q) for q in ps))
        for prof in ('debug', 'release'):
            o = engine.native([line], prof)[0]
            if o[0] != 'ok':
                return 'Welzl::bounding_sphere panicked on %r' % ps
            c, r = [float(x) for x in o[1:4]], float(o[4])
            for q in ps:
                d2 = sum((a - b) ** 2 for a, b in zip(q, c))
                if not (r > 0 and d2 <= r * r * (1 + 1e-6)):
                    return 'Welzl::bounding_sphere(%r) = centre %r radius %r does not contain %r [%s build]' % (ps, c, r, q, prof)
    return None


def check(run):
    funcs, info = engine.load_mir('ibig')
    run.mir_info.append(info)
    run.guard(space_new, funcs)
    run.guard(get_cid, funcs)
    run.guard(r_ring, funcs)
    run.guard(cell_bounds, funcs)
    run.guard(epos6_extension, funcs, 1)          # two extension steps in sequence did not finish in 3.5 h (path explosion): one step, any previous sphere
    run.guard(welzl_small, funcs, (2,))        # N = 3: 90 s per path and one path undecided in 240 s (sum of a square root): not used
    from . import C19
    run.guard(C19.sphere_contains, funcs, 'C20')     # the membership test the bounding-sphere solvers recurse on (any length scale)
    run.assume('the kNN ring loop with its heap, Welzl recursion/minimality and Epos6 extremal-point selection are not encoded')
    run.assume('f64 read as exact reals; f64::INFINITY read as a symbolic bound larger than 1e9 with |inputs| <= 1e6')
    return run.finish(LEVEL, EXPLANATION, trusted=['rustc -Zunpretty=mir', 'z3 5.1.0 / 4.8.12, cvc5 1.0.3', 'glam / std models of mirsym'])


def replay(path):
    d = json.load(open(path))
    if d['kind'] == 'welzl_points':
        bad = check_welzl_native(d)
        print(bad)
        return 1 if bad else 0
    if d['kind'] == 'sphere_contains':
        from . import C19
        return C19.replay(path)
    f = {'space_cells': check_space_cells_native, 'cell_min_distance': check_cell_min_distance_native, 'epos6_spheres': check_epos6_native}[d['kind']]
    bad = f(d)
    print(bad)
    return 1 if bad else 0
