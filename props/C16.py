"""C16 - the safety radius bounds the cell and its region of influence (per-step lemma)."""
import json

from mirsym import engine
from . import geomrules as GR, staterules as SR

LEVEL = 'other'
EXPLANATION = ('Per-step lemma from the MIR, decided by z3 over the reals: Vertex::from_dual measures radius^2 = |gen - P_d(loc)|^2 in the active '
               'subspace for each dimensionality; with the bisector built exactly as in ConvexCell::build and the real HalfSpace::new/clip, a '
               'generator farther than the safety radius (sr >= 2 |v - g| for every vertex v) clips no vertex (factor 1.5 instead of 2 is refuted); one '
               'iteration of ConvexCell::build returns the cell unchanged iff the candidate is farther than the safety radius, otherwise clips by the '
               'bisector. update_safety_radius (iterator map / max_by / partial_cmp chain from the MIR) yields sr with (sr/2)^2 >= every vertex radius^2 and equality for one. The history quantifier follows '
               'by composition with C17 (argument in DESIGN.md, not a query).')


def check(run):
    funcs, info = engine.load_mir('ibig')
    run.mir_info.append(info)
    run.guard(GR.from_dual, funcs, 'C16')
    run.guard(GR.far_plane_lemma, funcs, 'C16')
    run.guard(GR.build_loop, funcs, 'C16')
    run.guard(GR.build_loop_multi, funcs, 'C16')
    run.guard(SR.all_transitions, funcs, 'C16')       # the radius survives clone / with_faces / discard_faces / VoronoiIntegrator::with_faces
    run.guard(GR.update_safety_radius, funcs, 'C16', 3 if run.tier == 'quick' else 4)
    run.assume('f64 read as exact reals (a bit-precise Kani version of update_safety_radius did not finish in 700 s: CBMC sqrt model)')
    run.assume('history quantifier (adding far generators leaves the cell unchanged) = composition of this lemma with the visiting order (C17): not a query')
    return run.finish(LEVEL, EXPLANATION, trusted=['rustc -Zunpretty=mir', 'z3 5.1.0 / 4.8.12, cvc5 1.0.3', 'glam / std iterator models of mirsym'])


def replay(path):
    d = json.load(open(path))
    if d['kind'] in SR.NATIVE:
        return SR.replay(d)
    return GR.replay(d)
