"""C03 - faces are reciprocal and stored once (bookkeeping part): the store-once / reciprocal-pair rule of face
construction for every label/mask combination, shift negation and symmetry of the image set."""
import json

import z3

from mirsym import engine
from mirsym.interp import to_z3
from . import facerule as FR
from . import nnrules
from . import oracle as OR
from .common import zdot

LEVEL = 'other'
EXPLANATION = ('The decision rule that says which cell constructs which face is taken from the MIR of '
               'VoronoiCell::from_convex_cell::{closure#1} (with its nested mask closure and the real VoronoiFace/FaceIntegrator::init) and '
               'executed symbolically: discriminants are enumerated, cell labels i != j, the mask (an uninterpreted array of any length) and '
               'the plane normal are symbolic. z3 decides that an unshifted i-j face is constructed by exactly one of two constructed cells '
               '(the lower index), by the constructed one if only one is, always for shifted/wall planes, never for normals outside the '
               'active subspace, and that the recorded face carries left = own index and the plane\'s right/shift. The periodic shift '
               'convention (reported shift = -query shift, None iff zero) and the symmetry of the enumerated image set come from the MIR of '
               'rtree_nn.rs. Counterexamples are replayed through the real from_convex_cell on a tetrahedral cell.')


def eval_int(m, t):
    return engine.model_value(m, t)


def replay_pair(run, pid, what, model, a, b, case, mask_some):
    """native replay of a pair-rule counterexample: run the real closure for cell i towards j and for cell j towards i"""
    i = eval_int(model, a['idx'])
    j = eval_int(model, a['j'])
    n = max(i, j) + 1
    nm = eval_int(model, a['nmask'])
    n = max(n, min(nm, n + 2))
    mask = [bool(engine.model_value(model, a['mask'](k))) for k in range(n)] if mask_some else None
    # the plane normal of the model (the rule may look at it), brought to unit length; axis-parallel fallback
    import math
    try:
        nv = [float(engine.model_value(model, to_z3(x))) for x in a['n'].items]
    except Exception:
        nv = [1.0, 0.0, 0.0]
    ln = math.sqrt(sum(x * x for x in nv))
    normal = tuple(x / ln for x in nv) if ln > 0 else (1.0, 0.0, 0.0)
    payload = {'kind': 'face_rule_pair', 'i': i, 'j': j, 'mask': mask, 'dim': case.dim, 'shift': None, 'normal': normal}
    bad = check_pair_native(payload)
    if bad:
        path = engine.save_replay(pid, payload)
        run.violation('%s: %s (i=%d, j=%d, mask=%r)' % (what, bad, i, j, mask), path)
    else:
        run.suspect.append('%s: solver counterexample i=%d j=%d mask=%r does not reproduce natively' % (what, i, j, mask))


def replay_labels(run, pid, what, model, a, case, mask_some):
    """native confirmation of a wrong-label counterexample: the discrete part of the model (labels, mask bits, dimension) completed to
    inputs of the public API; the statements of C03/C04/C07/C12 are evaluated on the real tessellation"""
    i = eval_int(model, a['idx'])
    j = eval_int(model, a['j'])
    d = {'OneD': 1, 'TwoD': 2, 'ThreeD': 3}[case.dim]
    bit = lambda k: bool(engine.model_value(model, a['mask'](k)))
    if i > 8 or j > 8:
        # large labels: keep their order relation and their two mask bits
        bi, bj = (bit(i), bit(j)) if mask_some else (True, True)
        i, j = (0, 1) if i < j else (1, 0)
        mask = ([bi, bj] if i == 0 else [bj, bi]) if mask_some else None
    else:
        mask = [bit(k) for k in range(max(i, j) + 1)] if mask_some else None
    if not OR.confirm_family(pid, run, what + ' (i=%d, j=%d, mask=%r)' % (i, j, mask), d, False, mask, (i, j), pids=('C03', 'C04', 'C07', 'C12')):
        run.suspect.append('%s: solver counterexample i=%d j=%d mask=%r does not reproduce natively' % (what, i, j, mask))


def has_face(faces, right, normal):
    if faces is None:
        return None
    for (l, r, sh, nrm) in faces:
        if r == right and sh is None and all(abs(abs(x) - abs(y)) < 1e-12 for x, y in zip(nrm, normal)):
            return True
    return False


def check_pair_native(p, profile='debug'):
    """the store-once rule on concrete labels, through the real code: returns a description if violated"""
    i, j, mask, dim, normal = p['i'], p['j'], p['mask'], p['dim'], tuple(p['normal'])
    act = lambda k: True if mask is None else mask[k]
    fi = FR.native_face_rule(i, dim, j, None, normal, mask, profile) if act(i) else []
    fj = FR.native_face_rule(j, dim, i, None, tuple(-x for x in normal), mask, profile) if act(j) else []
    ci = bool(has_face(fi, j, normal)) if act(i) else False
    cj = bool(has_face(fj, i, normal)) if act(j) else False
    total = int(ci) + int(cj)
    expected = 1 if (act(i) or act(j)) else 0
    if total != expected:
        return 'unshifted face between cells %d and %d is constructed %d times (by i: %s, by j: %s), expected %d' % (i, j, total, ci, cj, expected)
    return None


def pair_obligations(run, funcs, pid='C03'):
    """store-once rule, all dims x mask present/absent"""
    for dim in FR.DIMS:
        for mask_some in (False, True):
            case = FR.RuleCase(dim, True, False, mask_some)
            a = FR.run_maybe_init_face(run, funcs, case, tag='')
            Cij = FR.constructs(a)
            # the same closure seen from cell j towards i: swap the roles of idx and j
            Cji = z3.substitute(Cij, (a['idx'], z3.Int('tmp!swap')), (a['j'], a['idx']))
            Cji = z3.substitute(Cji, (z3.Int('tmp!swap'), a['j']))
            # ... and cell j sees the same plane with the opposite (inward) normal
            tmpn = [z3.Real('tmp!n%d' % k) for k in range(3)]
            Cji = z3.substitute(Cji, *[(to_z3(x), t) for x, t in zip(a['n'].items, tmpn)])
            Cji = z3.substitute(Cji, *[(t, -to_z3(x)) for x, t in zip(a['n'].items, tmpn)])
            valid = FR.valid_dim(dim, a['n'])
            pre = a['pre']
            mi, mj = a['mask'](a['idx']), a['mask'](a['j'])
            run.bound('labels i != j: unbounded naturals below a symbolic mask length; mask: uninterpreted Int -> Bool (every length, every content)')
            name = 'rule[%s,mask=%s]' % (dim, 'Some' if mask_some else 'None')
            if mask_some:
                # the property demands "stored exactly once"; WHICH side stores it is the implementation's choice (C13 states the choice separately)
                v, m = run.prove('%s %s: both constructed => exactly one side constructs the face' % (pid, name),
                                 pre + [valid, mi, mj], z3.Not(z3.Xor(Cij, Cji)), timeout=30, on_sat='caller')
                if v == 'sat':
                    replay_pair(run, pid, '%s %s both constructed' % (pid, name), m, a, None, case, True)
                v, m = run.prove('%s %s: only i constructed => i constructs the face' % (pid, name),
                                 pre + [valid, mi, z3.Not(mj)], z3.Not(Cij), timeout=30, on_sat='caller')
                if v == 'sat':
                    replay_pair(run, pid, '%s %s only one constructed' % (pid, name), m, a, None, case, True)
            else:
                v, m = run.prove('%s %s: full build => exactly one side constructs the face' % (pid, name),
                                 pre + [valid], z3.Not(z3.Xor(Cij, Cji)), timeout=30, on_sat='caller')
                if v == 'sat':
                    replay_pair(run, pid, '%s %s full build' % (pid, name), m, a, None, case, False)
            v, m = run.prove('%s %s: normal outside the active subspace => no face' % (pid, name), pre + [z3.Not(valid)], Cij, timeout=30)
            # recorded labels
            for s, made, face in a['outs']:
                if not made:
                    continue
                left, right, shift, normal, area, centroid = FR.face_fields(face)
                H = [c for c in s.pc if not isinstance(c, bool)]
                ok = z3.And(to_z3(left) == a['idx'], z3.BoolVal(right.name == 'Some') if True else True)
                v, m = run.prove('%s %s: recorded face has left = own index, right = Some(j), no shift' % (pid, name), H,
                                 z3.Not(z3.And(to_z3(left) == a['idx'],
                                               to_z3(right.items[0]) == a['j'] if right.name == 'Some' else z3.BoolVal(False),
                                               z3.BoolVal(shift.name == 'None'))), timeout=20, cross=False, on_sat='caller')
                if v == 'sat':
                    replay_labels(run, pid, '%s %s: recorded face labels differ from (own index, Some(j), no shift)' % (pid, name), m, a, case, mask_some)
    # shifted and wall planes: always constructed by their own cell (if valid), whatever the mask says
    for dim in FR.DIMS:
        for (rs, ss) in ((True, True), (False, False), (False, True)):
            for mask_some in (False, True):
                case = FR.RuleCase(dim, rs, ss, mask_some)
                a = FR.run_maybe_init_face(run, funcs, case)
                C = FR.constructs(a)
                valid = FR.valid_dim(dim, a['n'])
                run.prove('%s rule[%r]: shifted / wall plane is constructed iff its normal is in the active subspace' % (pid, case),
                          a['pre'], z3.Not(C == valid), timeout=30, cross=False)
                for s, made, face in a['outs']:
                    if not made:
                        continue
                    left, right, shift, normal, area, centroid = FR.face_fields(face)
                    H = [c for c in s.pc if not isinstance(c, bool)]
                    conds = [to_z3(left) == a['idx'], z3.BoolVal(right.name == ('Some' if rs else 'None')),
                             z3.BoolVal(shift.name == ('Some' if ss else 'None'))]
                    if rs:
                        conds.append(to_z3(right.items[0]) == a['j'])
                    if ss:
                        conds += [to_z3(x) == to_z3(y) for x, y in zip(shift.items[0].items, a['shift'].items)]
                    run.prove('%s rule[%r]: recorded labels equal the plane\'s labels' % (pid, case), H, z3.Not(z3.And(conds)), timeout=20, cross=False)
    # an already initialised face is kept (get_or_insert): no second face object per plane
    case = FR.RuleCase('ThreeD', True, False, True, pre_some=True)
    a = FR.run_maybe_init_face(run, funcs, case)
    for s, made, face in a['outs']:
        if not made or 'existing' not in repr(face):
            run.suspect.append('%s: an already initialised face was replaced or dropped by maybe_init_face' % pid)


def check(run):
    funcs, info = engine.load_mir('ibig')
    run.mir_info.append(info)
    run.guard(pair_obligations, funcs, 'C03')
    run.guard(nnrules.shift_reciprocity, funcs, 'C03')
    # reciprocity needs both cells to be clipped by each other (also by images of their own generator) inside a box that contains the images
    from . import geomrules as GR
    run.guard(GR.build_loop, funcs, 'C03')
    run.guard(GR.cuboid, funcs, 'C03')
    run.assume('equality of area/centroid seen from both sides and antisymmetric flux cancellation need both cells\' float geometry: outside the claim')
    run.assume('cells are labelled by their position (idx = generator index): established by C12 / C07.b')
    return run.finish(LEVEL, EXPLANATION, trusted=['rustc -Zunpretty=mir', 'z3 5.1.0 / 4.8.12, cvc5 1.0.3', 'std Option/Vec/iterator models of mirsym'])


def replay(path):
    d = json.load(open(path))
    if d['kind'] == 'scenario':
        return OR.replay(d)
    if d['kind'] == 'face_rule_pair':
        bad = check_pair_native(d)
        print(bad)
        return 1 if bad else 0
    if d['kind'] == 'nn_images':
        return nnrules.replay(d)
    from . import geomrules as GR
    return GR.replay(d)
