"""C17 - neighbour candidates are enumerated completely and in order of distance (leaf lemmas)."""
import json

import z3

from mirsym import engine
from mirsym.interp import Agg, Var, Ref, State, Opaque, to_z3
from . import nnrules
from .common import Call, rvec, hyps_of, zdot, vsub, vadd, model_floats, all_vars

LEVEL = 'other'
EXPLANATION = ('Leaf lemmas of the wrapping best-first search, each from the MIR of rtree_nn.rs and decided by z3 over the reals: the leaf distance is '
               'the squared distance to the periodic image that is later reported with shift -s; the envelope distance is an admissible lower bound '
               '(<= the leaf distance of every generator inside the envelope, 0 iff the shifted query is inside); the heap order is the reverse of the '
               'distance order (min-heap); the initial heap holds the root once per lattice shift in {-w,0,w}^d (3, 9, 27 shifts, all distinct, '
               'including 0); the mapping closure reports the shift as absent iff it is zero. The best-first loop over rstar nodes and rstar\'s own '
               'nearest_neighbor_iter are third-party / out of reach and not encoded.')


def leaf_and_envelope(run, funcs):
    q = Agg('array', [z3.Real('q%d' % k) for k in range(3)])
    s = Agg('array', [z3.Real('s%d' % k) for k in range(3)])
    g = rvec('g')
    gen = engine.make_struct('src/voronoi/generator.rs', 'Generator', loc=g, id=z3.Int('gid'))
    name = engine.find_fn_where(funcs, r'rtree_nn::<impl at [^>]*>::wrapping_distance_2$', 'Generator')
    import re
    st, dleaf = Call(run, funcs, '^' + re.escape(name) + '$', [gen, q, s], by_ref=(0, 1, 2)).single()
    # image of g that the iterator reports for query shift s: g - s  (reported shift = -s)
    img = [g.items[k] - s.items[k] for k in range(3)]
    d2 = sum((q.items[k] - img[k]) * (q.items[k] - img[k]) for k in range(3))
    vv, m = run.prove('C17 leaf distance = squared distance from the query to the image g - s (the image reported with shift -s)', hyps_of(st),
                      z3.Not(to_z3(dleaf) == d2), timeout=20, on_sat='caller')
    if vv == 'sat':
        vals = {str(x): float(engine.model_value(m, x)) for x in list(q.items) + list(s.items) + list(g.items)}
        pl = {'kind': 'leaf_distance', 'vals': vals}
        bad = check_leaf_native(pl)
        if bad:
            run.violation('C17 leaf distance: ' + bad, engine.save_replay('C17', pl))
        else:
            run.suspect.append('C17 leaf distance: counterexample does not reproduce natively')
    # envelope
    lo = Agg('array', [z3.Real('lo%d' % k) for k in range(3)])
    hi = Agg('array', [z3.Real('hi%d' % k) for k in range(3)])
    name = engine.find_fn_where(funcs, r'rtree_nn::<impl at [^>]*>::wrapping_distance_2$', 'AABB')
    pre = [lo.items[k] <= hi.items[k] for k in range(3)]
    c = Call(run, funcs, '^' + re.escape(name) + '$', [Agg('AABB', (lo, hi)), q, s], by_ref=(0, 1, 2), pre=pre)
    inside_g = [z3.And(lo.items[k] <= g.items[k], g.items[k] <= hi.items[k]) for k in range(3)]
    qs = [q.items[k] + s.items[k] for k in range(3)]
    inside_q = z3.And([z3.And(lo.items[k] <= qs[k], qs[k] <= hi.items[k]) for k in range(3)])
    for k, (st2, denv) in enumerate(c.outs):
        H = pre + hyps_of(st2)
        vv, m = run.prove('C17 envelope distance path %d: admissible lower bound (<= leaf distance of every generator inside the envelope)' % k,
                          H + inside_g + hyps_of(st), z3.Not(to_z3(denv) <= to_z3(dleaf)), timeout=60, on_sat='caller')
        if vv == 'sat':
            vals = {str(x): float(engine.model_value(m, x)) for x in list(q.items) + list(s.items) + list(g.items) + list(lo.items) + list(hi.items)}
            pl = {'kind': 'envelope_distance', 'vals': vals}
            bad = check_env_native(pl)
            if bad:
                run.violation('C17 envelope distance: ' + bad, engine.save_replay('C17', pl))
            else:
                run.suspect.append('C17 envelope distance: counterexample does not reproduce natively')
        run.prove('C17 envelope distance path %d: zero iff the shifted query point is inside the envelope, never negative' % k, H,
                  z3.Not(z3.And((to_z3(denv) == 0) == inside_q, to_z3(denv) >= 0)), timeout=60)


def nv(vals, pre):
    return [vals['%s%d' % (pre, k)] for k in range(3)]


def check_leaf_native(p, profile='debug'):
    v = p['vals']
    g = [v['g_x'], v['g_y'], v['g_z']]
    q, s = nv(v, 'q'), nv(v, 's')
    o = engine.native(['wrapped_point %s %s %s' % tuple(' '.join(engine.f2s(x) for x in t) for t in (g, q, s))], profile)[0]
    got = float(o[1])
    exp = sum((q[k] - (g[k] - s[k])) ** 2 for k in range(3))
    if abs(got - exp) > 1e-9 * max(1.0, exp):
        return 'wrapped leaf distance %.12g, expected |q - (g - s)|^2 = %.12g (g=%r q=%r s=%r)' % (got, exp, g, q, s)
    return None


def check_env_native(p, profile='debug'):
    v = p['vals']
    g = [v['g_x'], v['g_y'], v['g_z']]
    q, s, lo, hi = nv(v, 'q'), nv(v, 's'), nv(v, 'lo'), nv(v, 'hi')
    f = lambda t: ' '.join(engine.f2s(x) for x in t)
    o = engine.native(['wrapped_env %s %s %s %s' % (f(lo), f(hi), f(q), f(s)), 'wrapped_point %s %s %s' % (f(g), f(q), f(s))], profile)
    env, leaf = float(o[0][1]), float(o[1][1])
    if env > leaf * (1 + 1e-12) + 1e-300:
        return 'envelope distance %.12g exceeds the distance %.12g to a generator inside the envelope: the best-first search would visit it too late' % (env, leaf)
    return None


def heap_order(run, funcs):
    name = engine.find_fn(funcs, r'rtree_nn::<impl at [^>]*>::cmp$')
    d1, d2 = z3.Real('d1'), z3.Real('d2')
    mk = lambda d: engine.make_struct('src/rtree_nn.rs', 'RTreeNodeDistanceWrapper', node=Opaque('node'), distance=d, shift=Opaque('shift'))
    c = Call(run, funcs, '^' + __import__('re').escape(name) + '$', [mk(d1), mk(d2)], by_ref=(0, 1), generics={'T': 'Generator'})
    cov = []
    for k, (st, v) in enumerate(c.outs):
        H = hyps_of(st)
        cov.append(z3.And(H + [z3.BoolVal(True)]))
        want = {'Less': d1 > d2, 'Equal': d1 == d2, 'Greater': d1 < d2}[v.name]
        run.prove('C17 heap order path %d: cmp(a,b) = %s iff %s (reverse of the distance order: BinaryHeap pops the smallest distance)' % (k, v.name, want),
                  H, z3.Not(want), timeout=20)
    run.prove('C17 heap order: total on real distances', [], z3.Not(z3.Or(cov)), timeout=10, cross=False)


def iterator_next(run, funcs):
    """The loop of `RTreeWrappingNearestNeighbourIter::next` on a harness heap (pop order given, nodes symbolic): every popped leaf is
    returned - exactly once, with its own distance and shift, also when the same generator is popped again through another image -,
    a popped inner node only extends the heap with its own shift, an empty heap ends the iteration."""
    from mirsym.interp import UNIT, Unsupported
    from .common import none, some
    W = 'src/rtree_nn.rs'
    gid1, gid2 = z3.Int('gid1'), z3.Int('gid2')
    g1 = engine.make_struct('src/voronoi/generator.rs', 'Generator', loc=rvec('g1'), id=gid1)
    g2 = engine.make_struct('src/voronoi/generator.rs', 'Generator', loc=rvec('g2'), id=gid2)
    ds = [z3.Real('hd%d' % k) for k in range(4)]
    shs = [Agg('array', [z3.Real('hs%d_%d' % (k, c)) for c in range(3)]) for k in range(4)]
    st = State()
    st.heap[11] = Var('Leaf', (g1,), 'RTreeNode')
    st.heap[12] = Var('Parent', (Opaque('parent_node'),), 'RTreeNode')
    st.heap[13] = Var('Leaf', (g1,), 'RTreeNode')         # the same generator again (another periodic image)
    st.heap[14] = Var('Leaf', (g2,), 'RTreeNode')
    mk = lambda k: engine.make_struct(W, 'RTreeNodeDistanceWrapper', node=Ref(('H', 11 + k)), distance=ds[k], shift=shs[k])
    fields = engine.struct_fields(W, 'RTreeWrappingNearestNeighbourIter')
    extra = {f: Opaque(f) for f in fields if f not in ('nodes', 'query_point')}
    if extra:
        # a field the pinned iterator does not have (e.g. a set of visited ids): its operations are outside the model table, the encoding aborts
        pass
    it = engine.make_struct(W, 'RTreeWrappingNearestNeighbourIter', nodes=Agg('Vec', [mk(k) for k in range(4)]), query_point=Agg('array', [z3.Real('qp%d' % k) for k in range(3)]), **extra)
    st.heap[1] = it
    st.pc.extend([ds[0] <= ds[1], ds[1] <= ds[2], ds[2] <= ds[3]])

    def pop(i, s, a, c):
        v = i.deref_read(s, a[0])
        items = list(v.items)
        if not items:
            return none()
        i.deref_write(s, a[0], Agg(v.tag, items[1:]))
        return some(items[0])

    def extend_heap(i, s, a, c):
        s.events.append(('extend', a[1], a[2]))
        return UNIT

    ov = {'BinaryHeap::pop': pop, 'ParentNode::children': lambda i, s, a, c: Opaque('children'),
          'RTreeWrappingNearestNeighbourIter::extend_heap': extend_heap}
    name = engine.find_fn_where(funcs, r'rtree_nn::<impl at [^>]*>::next$', 'RTreeWrappingNearestNeighbourIter')
    interp = engine.new_interp(funcs, overrides=ov, enum_discr={'Leaf': 0, 'Parent': 1})
    want = [(0, 11), (2, 13), (3, 14), None]
    states = [st]
    ok = True
    why = ''
    for call_no, w in enumerate(want):
        nxt = []
        for s in states:
            outs = interp.exec_fn(s, name, [Ref(('H', 1))], {})
            for s2, v in outs:
                if w is None:
                    if v.name != 'None':
                        ok, why = False, 'call %d returns a candidate from an empty heap' % (call_no + 1)
                    continue
                k, cell = w
                if v.name != 'Some':
                    ok, why = False, 'call %d: a popped leaf is not returned (the iterator ends or skips it)' % (call_no + 1)
                    continue
                t, dist, sh = v.items[0].items
                same_ref = isinstance(t, Ref) and t.base == ('H', cell)
                if not same_ref:
                    ok, why = False, 'call %d returns %r instead of the popped leaf' % (call_no + 1, t)
                    continue
                vv, m = run.prove('C17 iterator next, call %d: the popped leaf is returned with its own distance and shift' % (call_no + 1), hyps_of(s2),
                                  z3.Not(z3.And([to_z3(dist) == ds[k]] + [to_z3(x) == to_z3(y) for x, y in zip(sh.items, shs[k].items)])), timeout=20, cross=False)
                nxt.append(s2)
        states = nxt
        if not states and w is not None:
            ok, why = False, why or 'call %d has no normal path' % (call_no + 1)
            break
    ext = [e for s in states for e in s.events if e[0] == 'extend']
    if ok and (len(ext) != len(states) or any(not all(x is y for x, y in zip(e[2].items, shs[1].items)) for e in ext)):
        ok, why = False, 'an inner node must extend the heap exactly once, with its own shift'
    run.add_functions(interp, funcs)
    run.obligations.append({'name': 'C17 iterator next on a harness heap [leaf g1, inner node, leaf g1 (other image), leaf g2]: every popped leaf is returned once, in pop order; '
                                    'the inner node extends the heap with its shift; then None', 'expect': 'unsat', 'verdict': 'unsat' if ok else 'sat',
                            'solver': 'path enumeration of the MIR + structural comparison', 'solver_s': 0.0, 'detail': why})
    if not ok:
        bad = nn_native_battery(run.seed)
        if bad:
            run.violation('C17 iterator next: %s; native visit sequence: %s' % (why, bad[0]), engine.save_replay('C17', bad[1]))
        else:
            run.suspect.append('C17 iterator next: %s (native visit sequences show no difference)' % why)


def nn_scenarios(seed=0):
    import random
    rng = random.Random(4242 + seed)
    out = []
    for dim, d in (('OneD', 1), ('TwoD', 2), ('ThreeD', 3)):
        for per in (False, True):
            for n in (1, 2, 3, 7, 12):
                width = [1.0, 1.25, 0.75]
                gens = [[rng.random() * width[0], rng.random() * width[1] if d >= 2 else 0.0, rng.random() * width[2] if d >= 3 else 0.0] for _ in range(n)]
                out.append({'kind': 'nn_visit', 'dim': dim, 'periodic': per, 'width': width, 'gens': gens, 'query': rng.randrange(n)})
    return out


def check_nn_visit_native(p, profile='debug'):
    """the statement of C17 on a real visit sequence: starts with the query generator itself (no shift), non-decreasing distance, every other
    generator exactly once - with periodic boundaries each of the 3^d images exactly once, shift absent iff zero"""
    dim, per, width, gens, qi = p['dim'], p['periodic'], p['width'], p['gens'], p['query']
    d = {'OneD': 1, 'TwoD': 2, 'ThreeD': 3}[dim]
    nimg = 3 ** d if per else 1
    total = len(gens) * nimg
    seq = nnrules.native_nn_sequence(dim, per, width, gens[qi], gens, total + 5, profile)
    if seq is None:
        return 'native visit sequence panicked'
    if not seq or seq[0] != (qi, None):
        return 'first candidate is %r, expected the query generator %d itself without shift' % (seq[:1], qi)
    if len(seq) != total:
        return '%d candidates visited, expected %d (= %d generators x %d images)' % (len(seq), total, len(gens), nimg)
    seen = set()
    last = -1.0
    q = gens[qi]
    for gid, sh in seq:
        if sh is not None and all(x == 0.0 for x in sh):
            return 'zero shift reported as present'
        s = sh or (0.0, 0.0, 0.0)
        for a in range(3):
            if not (s[a] == 0.0 or (per and a < d and abs(abs(s[a]) - width[a]) < 1e-12)):
                return 'shift %r is not a lattice vector' % (s,)
        key = (gid, tuple(round(x / w) for x, w in zip(s, width)))
        if key in seen:
            return 'candidate %r visited twice' % (key,)
        seen.add(key)
        dist = sum((gens[gid][a] + s[a] - q[a]) ** 2 for a in range(3))
        if dist < last * (1 - 1e-12) - 1e-300:
            return 'candidates are not visited in non-decreasing distance (%.12g after %.12g)' % (dist, last)
        last = max(last, dist)
    return None


def nn_native_battery(seed=0):
    for prof in ('debug', 'release'):
        for sc in nn_scenarios(seed):
            bad = check_nn_visit_native(sc, prof)
            if bad:
                return '%s [%s build, %s, periodic=%s, %d generators]' % (bad, prof, sc['dim'], sc['periodic'], len(sc['gens'])), sc
    return None


def check(run):
    funcs, info = engine.load_mir('ibig')
    run.mir_info.append(info)
    run.guard(leaf_and_envelope, funcs)
    run.guard(heap_order, funcs)
    run.guard(nnrules.shift_reciprocity, funcs, 'C17')
    run.guard(iterator_next, funcs)
    from . import buildrules as BR
    run.guard(BR.check_direct_build_closure, funcs, 'C17')      # the search is centred on the generator the cell is built for (self first, distance 0)
    run.guard(BR.check_integrator_closures, funcs, 'C17')
    if run.inconclusive and not run.violations:
        # part of the search could not be encoded for this tree (construct outside the model table): no solver verdict on it; the statement of
        # C17 is evaluated on real visit sequences - a violation observed there is real, observing nothing leaves the run inconclusive
        bad = nn_native_battery(run.seed)
        if bad:
            run.violation('C17: no solver verdict (%s); native visit sequence: %s' % (run.inconclusive[0][:160], bad[0]), engine.save_replay('C17', bad[1]))
    run.assume('rstar (bulk load, node envelopes contain their children, nearest_neighbor_iter) is trusted third-party code: not encoded')
    run.assume('ordering among exactly equal distances and ulp-level rounding of distances: outside the claim')
    return run.finish(LEVEL, EXPLANATION, trusted=['rustc -Zunpretty=mir', 'z3 5.1.0 / 4.8.12, cvc5 1.0.3', 'rstar', 'std BinaryHeap'])


def replay(path):
    d = json.load(open(path))
    if d['kind'] == 'leaf_distance':
        bad = check_leaf_native(d)
    elif d['kind'] == 'envelope_distance':
        bad = check_env_native(d)
    elif d['kind'] == 'nn_visit':
        bad = check_nn_visit_native(d)
    else:
        return nnrules.replay(d)
    print(bad)
    return 1 if bad else 0
