"""C17 - neighbour candidates are enumerated completely and in order of distance (leaf lemmas)."""
import json

import z3

from mirsym import engine
from mirsym.interp import Agg, Var, Ref, State, Opaque, to_z3
from . import nnrules
from .common import Call, rvec, hyps_of, zdot, vsub, vadd, model_floats, all_vars

LEVEL = 'other'
EXPLANATION = ('Leaf lemmas of the wrapping best-first search, each from the MIR of rtree_nn.rs and decided by z3 over the reals: the leaf distance is '
               'the squared distance to the periodic image that is later reported with shift -s; the envelope distance is an admissible lower bound '
               '(<= the leaf distance of every generator inside the envelope, 0 iff the shifted query is inside); the heap order is the reverse of the '
               'distance order (min-heap); the initial heap holds the root once per lattice shift in {-w,0,w}^d (3, 9, 27 shifts, all distinct, '
               'including 0); the mapping closure reports the shift as absent iff it is zero. The best-first loop over rstar nodes and rstar\'s own '
               'nearest_neighbor_iter are third-party / out of reach and not encoded.')


def leaf_and_envelope(run, funcs):
    q = Agg('array', [z3.Real('q%d' % k) for k in range(3)])
    s = Agg('array', [z3.Real('s%d' % k) for k in range(3)])
    g = rvec('g')
    gen = engine.make_struct('src/voronoi/generator.rs', 'Generator', loc=g, id=z3.Int('gid'))
    name = engine.find_fn_where(funcs, r'rtree_nn::<impl at [^>]*>::wrapping_distance_2$', 'Generator')
    import re
    st, dleaf = Call(run, funcs, '^' + re.escape(name) + '$', [gen, q, s], by_ref=(0, 1, 2)).single()
    # image of g that the iterator reports for query shift s: g - s  (reported shift = -s)
    img = [g.items[k] - s.items[k] for k in range(3)]
    d2 = sum((q.items[k] - img[k]) * (q.items[k] - img[k]) for k in range(3))
    vv, m = run.prove('C17 leaf distance = squared distance from the query to the image g - s (the image reported with shift -s)', hyps_of(st),
                      z3.Not(to_z3(dleaf) == d2), timeout=20, on_sat='caller')
    if vv == 'sat':
        vals = {str(x): float(engine.model_value(m, x)) for x in list(q.items) + list(s.items) + list(g.items)}
        pl = {'kind': 'leaf_distance', 'vals': vals}
        bad = check_leaf_native(pl)
        if bad:
            run.violation('C17 leaf distance: ' + bad, engine.save_replay('C17', pl))
        else:
            run.suspect.append('C17 leaf distance: counterexample does not reproduce natively')
    # envelope
    lo = Agg('array', [z3.Real('lo%d' % k) for k in range(3)])
    hi = Agg('array', [z3.Real('hi%d' % k) for k in range(3)])
    name = engine.find_fn_where(funcs, r'rtree_nn::<impl at [^>]*>::wrapping_distance_2$', 'AABB')
    pre = [lo.items[k] <= hi.items[k] for k in range(3)]
    c = Call(run, funcs, '^' + re.escape(name) + '$', [Agg('AABB', (lo, hi)), q, s], by_ref=(0, 1, 2), pre=pre)
    inside_g = [z3.And(lo.items[k] <= g.items[k], g.items[k] <= hi.items[k]) for k in range(3)]
    qs = [q.items[k] + s.items[k] for k in range(3)]
    inside_q = z3.And([z3.And(lo.items[k] <= qs[k], qs[k] <= hi.items[k]) for k in range(3)])
    for k, (st2, denv) in enumerate(c.outs):
        H = pre + hyps_of(st2)
        vv, m = run.prove('C17 envelope distance path %d: admissible lower bound (<= leaf distance of every generator inside the envelope)' % k,
                          H + inside_g + hyps_of(st), z3.Not(to_z3(denv) <= to_z3(dleaf)), timeout=60, on_sat='caller')
        if vv == 'sat':
            vals = {str(x): float(engine.model_value(m, x)) for x in list(q.items) + list(s.items) + list(g.items) + list(lo.items) + list(hi.items)}
            pl = {'kind': 'envelope_distance', 'vals': vals}
            bad = check_env_native(pl)
            if bad:
                run.violation('C17 envelope distance: ' + bad, engine.save_replay('C17', pl))
            else:
                run.suspect.append('C17 envelope distance: counterexample does not reproduce natively')
        run.prove('C17 envelope distance path %d: zero iff the shifted query point is inside the envelope, never negative' % k, H,
                  z3.Not(z3.And((to_z3(denv) == 0) == inside_q, to_z3(denv) >= 0)), timeout=60)


def nv(vals, pre):
    return [vals['%s%d' % (pre, k)] for k in range(3)]


def check_leaf_native(p, profile='debug'):
    v = p['vals']
    g = [v['g_x'], v['g_y'], v['g_z']]
    q, s = nv(v, 'q'), nv(v, 's')
    o = engine.native(['wrapped_point %s %s %s' % tuple(' '.join(engine.f2s(x) for x in t) for t in (g, q, s))], profile)[0]
    got = float(o[1])
    exp = sum((q[k] - (g[k] - s[k])) ** 2 for k in range(3))
    if abs(got - exp) > 1e-9 * max(1.0, exp):
        return 'wrapped leaf distance %.12g, expected |q - (g - s)|^2 = %.12g (g=%r q=%r s=%r)' % (got, exp, g, q, s)
    return None


def check_env_native(p, profile='debug'):
    v = p['vals']
    g = [v['g_x'], v['g_y'], v['g_z']]
    q, s, lo, hi = nv(v, 'q'), nv(v, 's'), nv(v, 'lo'), nv(v, 'hi')
    f = lambda t: ' '.join(engine.f2s(x) for x in t)
    o = engine.native(['wrapped_env %s %s %s %s' % (f(lo), f(hi), f(q), f(s)), 'wrapped_point %s %s %s' % (f(g), f(q), f(s))], profile)
    env, leaf = float(o[0][1]), float(o[1][1])
    if env > leaf * (1 + 1e-12) + 1e-300:
        return 'envelope distance %.12g exceeds the distance %.12g to a generator inside the envelope: the best-first search would visit it too late' % (env, leaf)
    return None


def heap_order(run, funcs):
    name = engine.find_fn(funcs, r'rtree_nn::<impl at [^>]*>::cmp$')
    d1, d2 = z3.Real('d1'), z3.Real('d2')
    mk = lambda d: engine.make_struct('src/rtree_nn.rs', 'RTreeNodeDistanceWrapper', node=Opaque('node'), distance=d, shift=Opaque('shift'))
    c = Call(run, funcs, '^' + __import__('re').escape(name) + '$', [mk(d1), mk(d2)], by_ref=(0, 1), generics={'T': 'Generator'})
    cov = []
    for k, (st, v) in enumerate(c.outs):
        H = hyps_of(st)
        cov.append(z3.And(H + [z3.BoolVal(True)]))
        want = {'Less': d1 > d2, 'Equal': d1 == d2, 'Greater': d1 < d2}[v.name]
        run.prove('C17 heap order path %d: cmp(a,b) = %s iff %s (reverse of the distance order: BinaryHeap pops the smallest distance)' % (k, v.name, want),
                  H, z3.Not(want), timeout=20)
    run.prove('C17 heap order: total on real distances', [], z3.Not(z3.Or(cov)), timeout=10, cross=False)


def check(run):
    funcs, info = engine.load_mir('ibig')
    run.mir_info.append(info)
    leaf_and_envelope(run, funcs)
    heap_order(run, funcs)
    nnrules.shift_reciprocity(run, funcs, 'C17')
    run.assume('rstar (bulk load, node envelopes contain their children, nearest_neighbor_iter) is trusted third-party code: not encoded')
    run.assume('ordering among exactly equal distances and ulp-level rounding of distances: outside the claim')
    return run.finish(LEVEL, EXPLANATION, trusted=['rustc -Zunpretty=mir', 'z3 5.1.0 / 4.8.12, cvc5 1.0.3', 'rstar', 'std BinaryHeap'])


def replay(path):
    d = json.load(open(path))
    if d['kind'] == 'leaf_distance':
        bad = check_leaf_native(d)
    elif d['kind'] == 'envelope_distance':
        bad = check_env_native(d)
    else:
        return nnrules.replay(d)
    print(bad)
    return 1 if bad else 0
