"""C04 - face normals point away from the left generator; centroid in the face plane (normal / centroid part)."""
import json

import z3

from mirsym import engine
from mirsym.interp import to_z3
from . import facerule as FR, geomrules as GR, C03, oracle as OR

LEVEL = 'other'
EXPLANATION = ('From the MIR, decided by z3: the face recorded by the real VoronoiFace/FaceIntegrator/VoronoiFaceIntegral::init carries normal = '
               '-(inward plane normal of the left cell), for every label/dimension combination that constructs a face; wall planes of cuboid have '
               'inward unit normals +-e_k; neighbour planes built by ConvexCell::build have the unit normal (g - q)/|g - q| (from the neighbour '
               'towards the generator) through the midpoint, hence the stored face normal points from the left generator towards the right one; '
               'collect adds A and A (v0+v1+v2), finalize divides by 3 A for EVERY positive accumulated area, so the centroid is an affine '
               'combination of the base-triangle vertices (which lie in the face plane, C14.b). Closure sum(A n) = 0 and the divergence identity '
               'are cell-level float sums and are outside.')


def outward_normal(run, funcs):
    for dim in FR.DIMS:
        for rs, ss in ((True, False), (True, True), (False, False)):
            a = FR.run_maybe_init_face(run, funcs, FR.RuleCase(dim, rs, ss, False))
            for s, made, face in a['outs']:
                if not made:
                    continue
                left, right, shift, normal, area, centroid = FR.face_fields(face)
                H = [c for c in s.pc if not isinstance(c, bool)]
                goal = z3.And([to_z3(x) == -to_z3(y) for x, y in zip(normal.items, a['n'].items)] +
                              [to_z3(area) == 0] + [to_z3(x) == 0 for x in centroid.items])
                vv, m = run.prove('C04 face init[%s, right=%s, shift=%s]: stored normal = -(inward plane normal); area and centroid start at 0' % (dim, rs, ss),
                                  H, z3.Not(goal), timeout=20, on_sat='caller')
                if vv == 'sat':
                    pl = {'kind': 'face_normal'}
                    bad = check_face_normal_native(pl)
                    if bad:
                        run.violation('C04 face normal: ' + bad, engine.save_replay('C04', pl))
                    else:
                        # the counterexample may need a particular configuration (e.g. a generator exactly on the plane): complete its discrete part
                        # (dimension, wall / neighbour / periodic plane) to inputs of the public API, including generators on walls
                        d = {'OneD': 1, 'TwoD': 2, 'ThreeD': 3}[dim]
                        extra = OR.wall_scenarios(d, ss) + OR.wall_scenarios(d, ss, mask=[True, False])
                        if not OR.confirm_family('C04', run, 'C04 face init[%s, right=%s, shift=%s]: stored normal is not minus the inward plane normal' % (dim, rs, ss),
                                                 d, ss, None, (0, 1), pids=('C04',), extra=extra):
                            run.suspect.append('C04 face init: counterexample does not reproduce natively')


def check_face_normal_native(p, profile='debug'):
    """two generators in a box: every face normal must point away from the left generator"""
    line = 'build 3 0 0 0 0 1 1 1 0 2 0.25 0.5 0.5 0 0.75 0.4 0.6 0'
    o = engine.native([line], profile)[0]
    if o[0] != 'ok':
        return 'native build panicked'
    gens = [(0.25, 0.5, 0.5), (0.75, 0.4, 0.6)]
    txt = ' '.join(o[1:])
    for fc in txt.split('||')[1].split('|')[1:]:
        t = fc.split()
        left = int(t[0])
        k = 2
        k += 4 if t[k] == '1' else 1
        cen = [float(x) for x in t[k + 1:k + 4]]
        nrm = [float(x) for x in t[k + 4:k + 7]]
        out = sum((c - g) * n for c, g, n in zip(cen, gens[left], nrm))
        if out <= 0:
            return 'face of cell %d with centroid %r has normal %r pointing towards its left generator %r' % (left, cen, nrm, gens[left])
    return None


def known_findings(run):
    """re-observe the listed genuine defects natively"""
    import os
    for k in engine.load_known('C04'):
        sc = json.load(open(os.path.join(engine.VERIF, k['input'])))
        v = [x for x in OR.violations(sc, 'release', only=('C04',), include_known=True) if 'closed surface' in x[1] or 'divergence' in x[1]]
        if v:
            run.known_seen.append('%s: %s' % (k['key'], v[0][1]))


def check(run):
    funcs, info = engine.load_mir('ibig')
    run.mir_info.append(info)
    run.guard(outward_normal, funcs)
    run.guard(C03.pair_obligations, funcs, 'C04')     # every face of a constructed cell exists in the tessellation (needed for closed surfaces)
    run.guard(GR.cuboid, funcs, 'C04')
    run.guard(GR.build_loop, funcs, 'C04')
    run.guard(GR.face_integral, funcs, 'C04')
    from . import staterules as SR
    run.guard(SR.integrator_with_faces, funcs, 'C04')    # a cell stays a closed surface through build(mask) -> with_faces() -> Voronoi::from
    run.guard(known_findings)
    run.assume('closure of the cell surface and the divergence identity need the whole float pipeline: outside')
    return run.finish(LEVEL, EXPLANATION, trusted=['rustc -Zunpretty=mir', 'z3 5.1.0 / 4.8.12, cvc5 1.0.3', 'glam / std models of mirsym'])


def replay(path):
    d = json.load(open(path))
    if d['kind'] == 'face_rule_pair':
        return C03.replay(path)
    if d['kind'] == 'scenario':
        return OR.replay(d)
    if d['kind'] == 'integrator_with_faces':
        from . import staterules as SR
        return SR.replay(d)
    if d['kind'] == 'face_normal':
        bad = check_face_normal_native(d)
        print(bad)
        return 1 if bad else 0
    return GR.replay(d)
