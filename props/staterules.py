"""State transitions keep what they do not mention (shared by C07, C13, C15, C16).

From the MIR, with SYMBOLIC scalar contents (cell index, generator position, safety radius, mask bits, box):
  * `ConvexCell::with_faces` / `discard_faces` (through `transition`) change nothing but the face data;
  * `<ConvexCell as Clone>::clone` returns a field-by-field equal cell, for a cell without and with face data;
  * `VoronoiIntegrator::with_faces` keeps `cell_is_active`, anchor, width, dimensionality, periodic and maps every cell slot in place
    (a `None` slot stays `None`, a `Some(cell)` slot holds `cell.with_faces()`).
Equality of the remaining fields is decided by z3 on the symbolic leaves (structural positions are compared directly)."""
import z3

from mirsym import engine
from mirsym.engine import Inconclusive
from mirsym.interp import Agg, Var, Ref, State, Opaque, SymArr, UNIT, to_z3, is_z3
from .common import rvec, none, some, hyps_of
from . import facerule as FR, C15

CC = 'src/voronoi/convex_cell.rs'
cc = lambda v, nm: v.items[engine.field_index(CC, 'ConvexCell', nm)]
KEEP = ('idx', 'loc', 'clipping_planes', 'vertices', 'boundary', 'safety_radius', 'dimensionality')


def flat_eq(a, b, path=''):
    """-> (list of z3 equalities for symbolic leaves, list of structural differences)"""
    eqs, diffs = [], []
    if isinstance(a, (Agg, Var)) and isinstance(b, (Agg, Var)):
        ta, tb = getattr(a, 'tag', getattr(a, 'name', None)), getattr(b, 'tag', getattr(b, 'name', None))
        if ta != tb or len(a.items) != len(b.items):
            diffs.append('%s: %s/%d vs %s/%d' % (path, ta, len(a.items), tb, len(b.items)))
            return eqs, diffs
        for k, (x, y) in enumerate(zip(a.items, b.items)):
            e, d = flat_eq(x, y, '%s.%d' % (path, k))
            eqs += e
            diffs += d
        return eqs, diffs
    if is_z3(a) or is_z3(b):
        try:
            eqs.append(to_z3(a) == to_z3(b))
        except Exception:
            diffs.append('%s: %r vs %r' % (path, a, b))
        return eqs, diffs
    if isinstance(a, Opaque) and isinstance(b, Opaque):
        if repr(a) != repr(b):
            diffs.append('%s: %r vs %r' % (path, a, b))
        return eqs, diffs
    if a != b:
        diffs.append('%s: %r vs %r' % (path, a, b))
    return eqs, diffs


def sym_cell(funcs, tag=''):
    """tetrahedral catalogue cell with symbolic index, generator position, safety radius and plane labels"""
    cname, planes, verts = C15.catalogue(funcs)[1]
    idx = z3.Int('idx' + tag)
    j = z3.Int('j' + tag)
    sh = rvec('sh' + tag)
    labels = [(none(), none())] * len(planes)
    labels[1] = (some(j), none())
    labels[2] = (some(j), some(sh))
    cell = C15.mk_cell(planes, verts, idx=idx, labels=labels)
    items = list(cell.items)
    items[engine.field_index(CC, 'ConvexCell', 'loc')] = rvec('cloc' + tag)
    items[engine.field_index(CC, 'ConvexCell', 'safety_radius')] = z3.Real('csr' + tag)
    return Agg(cell.tag, items), [idx >= 0, j >= 0]


def prove_kept(run, pid, what, pre, st, before, after, fields, native='cell_state'):
    H = pre + hyps_of(st)
    for nm in fields:
        eqs, diffs = flat_eq(cc(before, nm), cc(after, nm), nm)
        if diffs:
            vv = 'sat'
            run.obligations.append({'name': '%s %s: field `%s` is preserved' % (pid, what, nm), 'expect': 'unsat', 'verdict': 'sat',
                                    'solver': 'structural comparison', 'solver_s': 0.0, 'detail': diffs[:3]})
        else:
            goal = z3.And(eqs) if eqs else z3.BoolVal(True)
            vv, m = run.prove('%s %s: field `%s` is preserved' % (pid, what, nm), H, z3.Not(goal), timeout=20, cross=False, on_sat='caller')
        if vv == 'sat':
            pl = {'kind': native}
            bad = NATIVE[native](pl)
            if bad:
                run.violation('%s %s does not preserve `%s`: %s' % (pid, what, nm, bad), engine.save_replay(pid, pl))
            else:
                run.suspect.append('%s %s: field `%s` differs in the encoding (%s); the native round trip shows no difference' % (pid, what, nm, '; '.join(diffs[:2])))


def cell_transitions(run, funcs, pid):
    cell, pre = sym_cell(funcs)
    interp, outs = C15.with_faces(funcs, cell)
    run.add_functions(interp, funcs)
    if len(outs) != 1:
        raise Inconclusive('with_faces on the symbolic-label tetrahedron: %d paths' % len(outs))
    st, c2 = outs[0]
    prove_kept(run, pid, 'ConvexCell::with_faces', pre, st, cell, c2, KEEP)
    if cc(c2, 'faces').name != 'Some' or cc(c2, 'face_vertex_connections').name != 'Some':
        run.suspect.append('%s ConvexCell::with_faces: face data absent afterwards' % pid)
    dname = engine.find_fn(funcs, r'convex_cell::<impl at [^>]*>::discard_faces$')
    i2 = engine.new_interp(funcs, max_visits=200000)
    o2 = i2.exec_fn(State(), dname, [c2], {})
    run.add_functions(i2, funcs)
    if len(o2) != 1:
        raise Inconclusive('discard_faces: %d paths' % len(o2))
    prove_kept(run, pid, 'ConvexCell::discard_faces', pre, o2[0][0], c2, o2[0][1], KEEP)
    return cell, c2, pre


def cell_clone(run, funcs, pid):
    cell, pre = sym_cell(funcs, tag='c')
    interp, outs = C15.with_faces(funcs, cell)
    c2 = outs[0][1]
    name = engine.find_fn_where(funcs, r'convex_cell::<impl at [^>]*>::clone$', 'ConvexCell<')
    for label, val, gen in (('cell without face data', cell, 'WithoutFaces'), ('cell with face data', c2, 'WithFaces')):
        i2 = engine.new_interp(funcs, max_visits=200000)
        s2 = State()
        s2.heap[1] = val
        o2 = i2.exec_fn(s2, name, [Ref(('H', 1))], {'T': gen})
        run.add_functions(i2, funcs)
        if len(o2) != 1:
            raise Inconclusive('ConvexCell::clone: %d paths' % len(o2))
        st, c3 = o2[0]
        prove_kept(run, pid, '<ConvexCell as Clone>::clone (%s)' % label, pre, st, val, c3, KEEP + ('faces', 'face_vertex_connections'))


def integrator_with_faces(run, funcs, pid):
    """VoronoiIntegrator::<WithoutFaces>::with_faces on three slots [Some(cell), None, Some(cell')] with an uninterpreted activity mask"""
    V = 'src/voronoi.rs'
    c0, pre0 = sym_cell(funcs, tag='0')
    c2, pre2 = sym_cell(funcs, tag='2')
    maskf = z3.Function('active', z3.IntSort(), z3.BoolSort())
    act = Agg('Vec', [maskf(0), maskf(1), maskf(2)])
    anchor, width = rvec('anchor'), rvec('width')
    per = z3.Bool('periodic')
    vi = engine.make_struct(V, 'VoronoiIntegrator', cells=Agg('Vec', [some(c0), none(), some(c2)]), cell_is_active=act, anchor=anchor, width=width,
                            dimensionality=FR.dimv('ThreeD'), periodic=per, **({'_phantom': Agg('zst:PhantomData', ())} if '_phantom' in engine.struct_fields(V, 'VoronoiIntegrator') else {}))
    name = engine.find_fn_where(funcs, r'voronoi::<impl at [^>]*>::with_faces$', 'VoronoiIntegrator')
    interp = engine.new_interp(funcs, max_visits=400000)
    outs = interp.exec_fn(State(), name, [vi], {})
    run.add_functions(interp, funcs)
    if len(outs) != 1:
        raise Inconclusive('VoronoiIntegrator::with_faces: %d paths' % len(outs))
    st, v2 = outs[0]
    fi = lambda v, nm: v.items[engine.field_index(V, 'VoronoiIntegrator', nm)]
    H = pre0 + pre2 + hyps_of(st)
    for nm in [f for f in engine.struct_fields(V, 'VoronoiIntegrator') if f not in ('cells', '_phantom')]:
        eqs, diffs = flat_eq(fi(vi, nm), fi(v2, nm), nm)
        if diffs:
            vv = 'sat'
            run.obligations.append({'name': '%s VoronoiIntegrator::with_faces: field `%s` is preserved' % (pid, nm), 'expect': 'unsat', 'verdict': 'sat',
                                    'solver': 'structural comparison', 'solver_s': 0.0, 'detail': diffs[:3]})
        else:
            vv, m = run.prove('%s VoronoiIntegrator::with_faces: field `%s` is preserved' % (pid, nm), H, z3.Not(z3.And(eqs) if eqs else z3.BoolVal(True)),
                              timeout=20, cross=False, on_sat='caller')
        if vv == 'sat':
            pl = {'kind': 'integrator_with_faces'}
            bad = check_integrator_with_faces_native(pl)
            if bad:
                run.violation('%s VoronoiIntegrator::with_faces does not preserve `%s`: %s' % (pid, nm, bad), engine.save_replay(pid, pl))
            else:
                run.suspect.append('%s VoronoiIntegrator::with_faces: field `%s` differs in the encoding; the native mask scenario shows no difference' % (pid, nm))
    cells2 = fi(v2, 'cells')
    ok = len(cells2.items) == 3 and cells2.items[0].name == 'Some' and cells2.items[1].name == 'None' and cells2.items[2].name == 'Some'
    if ok:
        for k, src in ((0, c0), (2, c2)):
            prove_kept(run, pid, 'VoronoiIntegrator::with_faces slot %d' % k, pre0 + pre2, st, src, cells2.items[k].items[0], KEEP, native='integrator_with_faces')
    else:
        pl = {'kind': 'integrator_with_faces'}
        bad = check_integrator_with_faces_native(pl)
        if bad:
            run.violation('%s VoronoiIntegrator::with_faces does not map the cell slots in place (Some, None, Some): %s' % (pid, bad), engine.save_replay(pid, pl))
        else:
            run.suspect.append('%s VoronoiIntegrator::with_faces: cell slots are not mapped in place (Some, None, Some)' % pid)


def check_integrator_with_faces_native(p, profile='debug'):
    """mask [true,false,true]: integrator -> with_faces -> Voronoi::from must equal the tessellation of the integrator without faces"""
    o = engine.native(['integrator_with_faces_mask'], profile)[0]
    if o[0] != 'ok':
        return 'native scenario panicked: ' + ' '.join(o[1:10])
    if o[1] != 'same':
        return 'build(mask) -> with_faces() -> Voronoi::from differs from build(mask) -> Voronoi::from: ' + ' '.join(o[1:30])
    return None


def check_cell_state_native(p, profile='debug'):
    for prof in ('debug', 'release'):
        o = engine.native(['cell_state_roundtrip'], prof)[0]
        if o[0] != 'ok':
            return 'native round trip clone / with_faces / discard_faces panicked (%s build): %s' % (prof, ' '.join(o[1:12]))
        if o[1] != 'same':
            return ' '.join(o[1:60])[:600] + ' [%s build]' % prof
    return None


NATIVE = {'cell_state': check_cell_state_native, 'integrator_with_faces': check_integrator_with_faces_native}


def all_transitions(run, funcs, pid):
    cell_transitions(run, funcs, pid)
    cell_clone(run, funcs, pid)
    integrator_with_faces(run, funcs, pid)
    run.bound('state transitions: tetrahedral catalogue cell with symbolic index / position / safety radius / labels; integrator with slots [Some, None, Some] and an uninterpreted activity mask')


def replay(d):
    if d['kind'] in NATIVE:
        bad = NATIVE[d['kind']](d)
        print(bad)
        return 1 if bad else 0
    raise Inconclusive('unknown replay kind')
