"""Native scenario oracle: confirms solver counterexamples through the PUBLIC API.

A solver counterexample on a decision rule (which cell constructs which face, which label a face carries, which mask bit is
consulted, ...) fixes the *discrete* part of an input: dimensionality, periodic or not, cell labels (i < j or i > j), mask bits,
shifted or not.  `scenario()` completes it to a concrete input (generator positions chosen so that the labelled cells are
neighbours), runs the real `Voronoi::build` / `build_partial` / `VoronoiIntegrator` route through the native replay binary and
`violations()` evaluates the *statements of the properties themselves* on what comes back (never implementation details such as
"the lower index is the left cell").  It is only ever used to decide whether a solver counterexample is reported as a VIOLATION:
it cannot make a check pass, and a scenario on which nothing is observed leaves the counterexample unconfirmed (exit 2)."""
import math
import random

from mirsym import engine

AX = {1: (0,), 2: (0, 1), 3: (0, 1, 2)}


def parse_build(toks):
    """tokens of the replay binary's `build` answer -> (cells, faces, conn)"""
    txt = ' '.join(toks)
    parts = txt.split('||')
    cells = []
    for c in parts[0].split('|')[1:]:
        t = c.split()
        k = t.index('ngb')
        cells.append({'idx': int(t[0]), 'volume': float(t[1]), 'centroid': [float(x) for x in t[2:5]], 'sr': float(t[5]), 'offset': int(t[6]),
                      'count': int(t[7]), 'ngb': [int(x) for x in t[k + 1:]], 'raw': ' '.join(t[1:6])})
    faces = []
    for fc in parts[1].split('|')[1:]:
        t = fc.split()
        left = int(t[0])
        right = None if t[1] == '-' else int(t[1])
        k = 2
        if t[k] == '1':
            shift = [float(x) for x in t[k + 1:k + 4]]
            k += 4
        else:
            shift = None
            k += 1
        faces.append({'left': left, 'right': right, 'shift': shift, 'area': float(t[k]), 'centroid': [float(x) for x in t[k + 1:k + 4]],
                      'normal': [float(x) for x in t[k + 4:k + 7]], 'raw': ' '.join(t)})
    conn = [int(x) for x in parts[2].split()[1:]]
    return cells, faces, conn


def build_line(cmd, sc, mask='own'):
    m = sc['mask'] if mask == 'own' else mask
    s = '%s %d %d %s %s %d %d' % (cmd, sc['dim'], 1 if sc['periodic'] else 0, ' '.join(engine.f2s(x) for x in sc['anchor']),
                                  ' '.join(engine.f2s(x) for x in sc['width']), 0 if m is None else 1, len(sc['gens']))
    for k, g in enumerate(sc['gens']):
        s += ' %s %d' % (' '.join(engine.f2s(x) for x in g), 1 if (m is None or m[k]) else 0)
    return s


def scenario(dim, periodic, n, mask=None, adjacent=None, seed=0, anchor=(0.0, 0.0, 0.0), width=(1.0, 1.25, 0.75), spread=0.12):
    """n generators on a jittered line along x (positions seeded), so that consecutive ranks are face neighbours; `adjacent` = labels that
    must be consecutive (e.g. (i, j)); the box is not cubic so that an axis mix-up shows."""
    rng = random.Random(1000 * seed + 17 * n + dim)
    order = list(range(n))
    rng.shuffle(order)
    if adjacent:
        rest = [k for k in order if k not in adjacent]
        pos = rng.randrange(len(rest) + 1)
        order = rest[:pos] + list(adjacent) + rest[pos:]
    gens = [None] * n
    for rank, k in enumerate(order):
        x = anchor[0] + width[0] * (rank + 0.5 + 0.3 * (rng.random() - 0.5)) / n
        y = anchor[1] + width[1] * (0.5 + spread * (rng.random() - 0.5)) if dim >= 2 else 0.0
        z = anchor[2] + width[2] * (0.5 + spread * (rng.random() - 0.5)) if dim >= 3 else 0.0
        gens[k] = (x, y, z)
    return {'kind': 'scenario', 'dim': dim, 'periodic': bool(periodic), 'anchor': list(anchor), 'width': list(width), 'gens': [list(g) for g in gens],
            'mask': None if mask is None else [bool(b) for b in mask]}


def replicated(sc):
    """the 3^d-fold replicated generator set in the tripled non-periodic box; index = block * n + k, block 0 = the central block"""
    ax = AX[sc['dim']]
    w = sc['width']
    blocks = [(0, 0, 0)] + [b for b in __import__('itertools').product((-1, 0, 1), repeat=3) if b != (0, 0, 0) and all(b[a] == 0 for a in range(3) if a not in ax)]
    gens = []
    for b in blocks:
        for g in sc['gens']:
            gens.append([g[a] + b[a] * w[a] for a in range(3)])
    rep = {'kind': 'scenario', 'dim': sc['dim'], 'periodic': False, 'anchor': [sc['anchor'][a] - (w[a] if a in ax else 0.0) for a in range(3)],
           'width': [w[a] * (3 if a in ax else 1) for a in range(3)], 'gens': gens, 'mask': None}
    return rep, blocks


def _lines(sc):
    lines = [build_line('build', sc), build_line('build_via_integrator', sc)]
    if sc['mask'] is not None:
        lines.append(build_line('build', sc, mask=None))
    if sc['periodic'] and len(sc['gens']) <= 8:
        lines.append(build_line('build', replicated(sc)[0]))
    return lines


def _run(sc, profile):
    return engine.native(_lines(sc), profile)


def run_many(scs, profile):
    """native results for many scenarios with one process start"""
    lines, spans = [], []
    for sc in scs:
        l = _lines(sc)
        spans.append((len(lines), len(l)))
        lines.extend(l)
    res = engine.native(lines, profile)
    return [res[a:a + k] for a, k in spans]


def on_wall(sc, g):
    ax = AX[sc['dim']]
    return any(g[a] == sc['anchor'][a] or g[a] == sc['anchor'][a] + sc['width'][a] for a in ax)


def violations(sc, profile='debug', only=None, res=None, include_known=False):
    """-> list of (property id, text) for every property statement that the real code violates on this scenario"""
    out = []
    if res is None:
        res = _run(sc, profile)
    if res[0][0] != 'ok':
        return [('C05', 'construction panics (%s build): %s' % (profile, ' '.join(res[0][1:14])))]
    cells, faces, conn = parse_build(res[0][1:])
    dim, per, gens, mask = sc['dim'], sc['periodic'], sc['gens'], sc['mask']
    n = len(gens)
    sel = lambda k: mask is None or mask[k]
    ax = AX[dim]
    w = sc['width']
    eff_w = [w[a] if a in ax else 1.0 for a in range(3)]
    box = 1.0
    for a in ax:
        box *= w[a]
    fscale = box / min(w[a] for a in ax)        # characteristic face measure (faces are (d-1)-dimensional)

    def add(pid, txt):
        if only is None or pid in only:
            out.append((pid, txt))

    # ---- C12: index structure
    if len(cells) != n:
        add('C12', '%d cells for %d generators' % (len(cells), n))
        return out
    off = 0
    for k, c in enumerate(cells):
        if c['offset'] != off:
            add('C12', 'cell %d: offset %d is not the prefix sum %d of the face counts' % (k, c['offset'], off))
        off += c['count']
    if off != len(conn):
        add('C12', 'face counts sum to %d but the connectivity array has %d entries' % (off, len(conn)))
    for k, c in enumerate(cells):
        lst = conn[c['offset']:c['offset'] + c['count']]
        want = sorted(f for f, fa in enumerate(faces) if fa['left'] == k or (fa['right'] == k and fa['shift'] is None))
        if sorted(lst) != want:
            add('C12', 'cell %d lists faces %r, expected %r (left, or right without shift)' % (k, sorted(lst), want))
        nb = sorted((faces[f]['right'] if faces[f]['left'] == k else faces[f]['left']) for f in want
                    if f < len(faces) and faces[f]['right'] is not None and faces[f]['shift'] is None)
        if sorted(c['ngb']) != nb or k in c['ngb'] or len(set(c['ngb'])) != len(c['ngb']):
            add('C12', 'cell %d: neighbour_ids = %r, expected %r (other side of its listed non-boundary, non-periodic faces)' % (k, c['ngb'], nb))
    # ---- C07 / C03: left cells are selected, unshifted pair faces stored once
    seen = {}
    for f, fa in enumerate(faces):
        if not sel(fa['left']):
            add('C07', 'face %d has the unselected cell %d on its left' % (f, fa['left']))
        if fa['right'] is not None and fa['shift'] is None:
            key = (min(fa['left'], fa['right']), max(fa['left'], fa['right']))
            if fa['left'] == fa['right']:
                add('C03', 'face %d joins cell %d with itself without a shift' % (f, fa['left']))
            if key in seen:
                add('C03', 'unshifted face between cells %d and %d is stored twice (faces %d and %d)' % (key[0], key[1], seen[key], f))
            seen[key] = f
            if not sel(fa['left']) and not sel(fa['right']):
                add('C07', 'face %d between two unselected cells %d, %d' % (f, fa['left'], fa['right']))
    # ---- C04 / C08 / C06 per face
    for f, fa in enumerate(faces):
        nrm, cen, gl = fa['normal'], fa['centroid'], gens[fa['left']]
        ln = math.sqrt(sum(x * x for x in nrm))
        if abs(ln - 1.0) > 1e-9:
            add('C04', 'face %d: normal %r is not a unit vector' % (f, nrm))
        if fa['area'] > 1e-9 * fscale:
            if sum((c - g) * x for c, g, x in zip(cen, gl, nrm)) < -1e-9 * max(eff_w):
                add('C04', 'face %d (left %d, right %r): normal %r points towards the left generator (centroid %r, generator %r)' % (f, fa['left'], fa['right'], nrm, cen, gl))
            if fa['right'] is None:
                # boundary face: outward through the wall
                bc = [sc['anchor'][a] + w[a] / 2 if a in ax else 0.0 for a in range(3)]
                if sum((c - b) * x for c, b, x in zip(cen, bc, nrm)) <= 0:
                    add('C04', 'boundary face %d (left %d): normal %r does not point outward through the wall (centroid %r)' % (f, fa['left'], nrm, cen))
            if fa['right'] is not None:
                gr = [a + b for a, b in zip(gens[fa['right']], fa['shift'] or (0, 0, 0))]
                d = [a - b for a, b in zip(gr, gl)]
                dl = math.sqrt(sum(x * x for x in d))
                if dl > 0 and sum(a * b for a, b in zip(d, nrm)) < (1 - 1e-9) * dl:
                    add('C04', 'face %d: normal %r is not the direction from the left generator %d to the right generator %d (+shift)' % (f, nrm, fa['left'], fa['right']))
                # centroid on the bisector
                mid = [(a + b) / 2 for a, b in zip(gr, gl)]
                if dl > 0 and abs(sum((c - m) * x for c, m, x in zip(cen, mid, d))) > 1e-9 * dl * max(1.0, dl):
                    add('C04', 'face %d: centroid %r does not lie on the bisector of generators %d and %d' % (f, cen, fa['left'], fa['right']))
        if any(abs(nrm[a]) > 1e-12 for a in range(3) if a not in ax):
            add('C08', 'face %d has a normal %r outside the active subspace of a %dD tessellation' % (f, nrm, dim))
        if fa['shift'] is not None:
            if all(x == 0 for x in fa['shift']):
                add('C06', 'face %d reports a zero shift instead of no shift' % f)
            for a in range(3):
                s = fa['shift'][a]
                if not (s == 0 or (per and a in ax and abs(abs(s) - w[a]) <= 1e-12 * w[a])):
                    add('C06', 'face %d: shift %r is not a lattice vector of the box %r' % (f, fa['shift'], w))
        if per and fa['right'] is None and fa['area'] > 1e-9 * fscale and any(abs(nrm[a]) > 0.5 for a in ax):
            add('C06', 'periodic tessellation has a boundary face (face %d, normal %r)' % (f, nrm))
    # ---- C04: every constructed cell is a closed surface (sum of area x outward normal = 0) and satisfies the divergence identity
    for k, c in enumerate(cells):
        if not sel(k) or len(cells) != n:
            continue
        if min(w[a] for a in ax) < 1e-12:
            continue        # at box widths below 1e-12 the absolute term of the clip error bound dominates; area accuracy there is not judged
        if on_wall(sc, gens[k]) and not include_known:
            continue        # known finding (C04 on-wall-generator-face-area): the wall face through the generator has an arbitrary triangle sign
        tot = [0.0, 0.0, 0.0]
        div = 0.0
        nf = 0
        for f in conn[c['offset']:c['offset'] + c['count']]:
            if f >= len(faces):
                continue
            fa = faces[f]
            sgn = 1.0 if fa['left'] == k else -1.0
            if fa['left'] != k and not (fa['right'] == k and fa['shift'] is None):
                continue
            nf += 1
            for a in range(3):
                tot[a] += sgn * fa['area'] * fa['normal'][a]
            div += sgn * fa['area'] * sum(fa['normal'][a] * (fa['centroid'][a] - gens[k][a]) for a in ax)
        if nf and max(abs(x) for x in tot) > 1e-7 * fscale:
            add('C04', 'cell %d is not a closed surface: sum of area x outward normal over its %d faces is %r' % (k, nf, tot))
        elif nf and c['volume'] > 0 and abs(div / dim - c['volume']) > 1e-7 * box:
            add('C04', 'cell %d: divergence theorem gives volume %r from its faces, the cell reports %r' % (k, div / dim, c['volume']))
    # ---- C03: periodic faces come in reciprocal pairs (both cells selected)
    for f, fa in enumerate(faces):
        if fa['shift'] is not None and fa['right'] is not None and sel(fa['right']) and fa['area'] > 1e-7 * fscale:
            rec = [g for g in faces if g['left'] == fa['right'] and g['right'] == fa['left'] and g['shift'] is not None
                   and all(abs(g['shift'][a_] + fa['shift'][a_]) <= 1e-9 * w[a_] for a_ in range(3))]
            if not rec:
                add('C03', 'periodic face %d (%d -> %d, shift %r) has no reciprocal face with the negated shift' % (f, fa['left'], fa['right'], fa['shift']))
            elif abs(rec[0]['area'] - fa['area']) > 1e-9 * fscale:
                add('C03', 'periodic face %d and its reciprocal differ in area: %r vs %r' % (f, fa['area'], rec[0]['area']))
    # ---- C06: the periodic tessellation is the central block of the tessellation of the 3^d-fold replicated generators
    if per and len(gens) <= 8 and res[-1][0] == 'ok' and len(res) >= (4 if mask is not None else 3):
        rc, rf, rk = parse_build(res[-1][1:])
        rep, blocks = replicated(sc)
        for k in range(n):
            if not sel(k):
                continue
            if abs(rc[k]['volume'] - cells[k]['volume']) > 1e-9 * box:
                add('C06', 'cell %d has measure %r, in the replicated non-periodic tessellation %r' % (k, cells[k]['volume'], rc[k]['volume']))
            want = set()
            for fa in rf:
                if fa['area'] <= 1e-7 * fscale or fa['right'] is None:
                    continue
                for me, other in ((fa['left'], fa['right']), (fa['right'], fa['left'])):
                    if me == k:
                        b = blocks[other // n]
                        want.add((other % n, tuple(b)))
            got = set()
            for f in conn[cells[k]['offset']:cells[k]['offset'] + cells[k]['count']]:
                if f >= len(faces):
                    continue
                fa = faces[f]
                if fa['area'] <= 1e-7 * fscale or fa['right'] is None:
                    continue
                if fa['left'] == k:
                    sh = fa['shift'] or (0.0, 0.0, 0.0)
                    got.add((fa['right'], tuple(int(round(sh[a] / w[a])) for a in range(3))))
                elif fa['shift'] is None and sel(fa['left']):
                    got.add((fa['left'], (0, 0, 0)))
            if mask is not None:
                # under a mask only faces towards unselected neighbours or stored by this cell are guaranteed to be listed by it:
                # every face of the full cell is listed (own, or stored by a selected lower-index neighbour), so the sets still agree
                pass
            if got != want:
                add('C06', 'cell %d has faces towards (generator, lattice shift) %r, in the replicated tessellation towards %r' % (k, sorted(got), sorted(want)))
    # ---- C02: positive measures that sum to the box
    if mask is None or all(mask):
        tot = sum(c['volume'] for c in cells)
        if abs(tot - box) > 1e-9 * box:
            add('C02', 'cell measures sum to %r, the box measure is %r' % (tot, box))
        for k, c in enumerate(cells):
            if not c['volume'] > 0:
                add('C02', 'cell %d has measure %r' % (k, c['volume']))
    # ---- C08 / C01: the 1D result is the closed form (cell boundaries at the midpoints of sorted neighbours, walls or periodic images)
    if dim == 1 and n >= 1 and len({g[0] for g in gens}) == n:
        order = sorted(range(n), key=lambda k: gens[k][0])
        a0, w0 = sc['anchor'][0], w[0]
        for r, k in enumerate(order):
            if not sel(k):
                continue
            x = gens[k][0]
            if per:
                lo = (gens[order[r - 1]][0] - (w0 if r == 0 else 0.0) + x) / 2
                hi = (gens[order[(r + 1) % n]][0] + (w0 if r == n - 1 else 0.0) + x) / 2
            else:
                lo = a0 if r == 0 else (gens[order[r - 1]][0] + x) / 2
                hi = a0 + w0 if r == n - 1 else (gens[order[r + 1]][0] + x) / 2
            if abs(cells[k]['volume'] - (hi - lo)) > 1e-9 * w0:
                add('C08', '1D cell %d has length %r, the closed form (midpoints of sorted neighbours) gives %r' % (k, cells[k]['volume'], hi - lo))
            if abs(cells[k]['centroid'][0] - (hi + lo) / 2) > 1e-9 * w0:
                add('C08', '1D cell %d has centroid %r, the closed form gives %r' % (k, cells[k]['centroid'][0], (hi + lo) / 2))
            mine = [faces[f] for f in conn[cells[k]['offset']:cells[k]['offset'] + cells[k]['count']] if f < len(faces)]
            if len(mine) != 2 or any(abs(fa['area'] - 1.0) > 1e-9 for fa in mine):
                add('C08', '1D cell %d lists %d faces with areas %r, expected two faces of area 1' % (k, len(mine), [fa['area'] for fa in mine]))
    # ---- C16: safety radius >= 2 x distance to points of the cell (face centroids and the cell centroid are in the cell)
    for k, c in enumerate(cells):
        if not sel(k):
            continue
        pts = [c['centroid']] + [faces[f]['centroid'] for f in conn[c['offset']:c['offset'] + c['count']] if f < len(faces) and faces[f]['left'] == k and faces[f]['area'] > 1e-9 * fscale]
        for p in pts:
            d = math.sqrt(sum((p[a] - gens[k][a]) ** 2 for a in ax))
            if c['sr'] < 2 * d * (1 - 1e-9):
                add('C16', 'cell %d: safety radius %r is smaller than twice the distance %r (active subspace) to a point of the cell' % (k, c['sr'], d))
                break
    # ---- C13: the integrator route gives bitwise the same tessellation
    if res[1][0] != 'ok':
        add('C13', 'VoronoiIntegrator route panics: %s' % ' '.join(res[1][1:12]))
    elif res[1] != res[0]:
        c2, f2, k2 = parse_build(res[1][1:])
        what = 'cells' if [c['raw'] for c in c2] != [c['raw'] for c in cells] else ('faces' if [x['raw'] for x in f2] != [x['raw'] for x in faces] else 'connectivity')
        add('C13', 'Voronoi::from(&VoronoiIntegrator) differs from the direct build (%s)' % what)
        if mask is not None:
            add('C07', 'VoronoiIntegrator::build(mask) -> Voronoi differs from Voronoi::build_partial with the same mask (%s): one of the two is not the restriction of the full tessellation' % what)
    # ---- C07: selected cells equal the full construction bitwise, unselected cells are zero
    if mask is not None and len(res) > 2 and res[2][0] == 'ok':
        cf, ff, kf = parse_build(res[2][1:])
        for k, c in enumerate(cells):
            if sel(k) and c['raw'] != cf[k]['raw']:
                add('C07', 'selected cell %d differs from the full construction: %s vs %s' % (k, c['raw'], cf[k]['raw']))
            if not sel(k) and (c['volume'] != 0 or any(x != 0 for x in c['centroid'])):
                add('C07', 'unselected cell %d reports volume %r / centroid %r' % (k, c['volume'], c['centroid']))
        # the faces of a selected cell: same (neighbour, shift) set as in the full construction
        def fset(fs, k):
            s = set()
            for fa in fs:
                if fa['area'] <= 1e-9 * fscale:
                    continue
                if fa['left'] == k:
                    s.add((fa['right'], tuple(fa['shift']) if fa['shift'] else None))
                elif fa['right'] == k and fa['shift'] is None:
                    s.add((fa['left'], None))
            return s
        for k in range(n):
            if sel(k) and fset(faces, k) != fset(ff, k):
                add('C07', 'selected cell %d has faces towards %r, in the full construction towards %r' % (k, sorted(fset(faces, k), key=str), sorted(fset(ff, k), key=str)))
    return out


def confirm(sc, pids=None):
    """run the scenario in debug and release; -> (text, profile) of the first violated statement (restricted to `pids` if given) or None"""
    for prof in ('debug', 'release'):
        v = violations(sc, prof, only=pids)
        if v:
            return '%s [%s build]' % ('; '.join('%s: %s' % x for x in v[:2]), prof), prof
    return None


def confirm_family(pid, run, what, dim, periodic, mask, pair, pids=None, extra=()):
    """try a small family of scenarios completing the discrete part of a solver counterexample; report the first one that violates a
    property natively.  Returns True if a VIOLATION was recorded."""
    n0 = max(list(pair) + [1]) + 1
    if mask is not None:
        n0 = max(n0, len(mask))
    tried = []
    for n in (n0, n0 + 1, n0 + 2):
        m = None if mask is None else (list(mask) + [True] * n)[:n]
        for seed in (0, 1):
            sc = scenario(dim, periodic, n, m, adjacent=pair, seed=seed)
            tried.append(sc)
    tried.extend(extra)
    for sc in tried:
        try:
            r = confirm(sc, pids)
        except engine.Inconclusive:
            continue
        if r:
            sc2 = dict(sc, expect=r[0])
            path = engine.save_replay(pid, sc2)
            run.violation('%s; confirmed through the public API: %s' % (what, r[0]), path)
            return True
    return False


def replay(d):
    r = confirm(d)
    print(r[0] if r else 'no property statement violated on this scenario')
    return 1 if r else 0


def wall_scenarios(dim=3, periodic=False, mask=None):
    """generators lying exactly on walls / edges / corners of the box (valid inputs by C05), few enough that no near-tie arises"""
    out = []
    a, w = (0.0, 0.0, 0.0), (1.0, 1.25, 0.75)
    pick = lambda t: tuple((a[k] + t[k] * w[k]) if k < dim else 0.0 for k in range(3))
    sets = [[(0.0, 0.4, 0.6), (0.7, 0.5, 0.3)], [(1.0, 0.4, 0.6), (0.3, 0.5, 0.3)], [(0.3, 0.0, 0.6), (0.7, 0.5, 0.3)],
            [(0.3, 0.6, 1.0), (0.7, 0.5, 0.3)], [(0.0, 0.0, 0.0), (0.6, 0.5, 0.4)], [(0.5, 0.5, 0.5), (1.0, 1.0, 1.0)],
            [(0.0, 0.3, 0.5)], [(0.0, 0.5, 0.5), (1.0, 0.4, 0.6), (0.4, 0.45, 0.55)]]
    for gs in sets:
        if periodic:
            # the periodic box is half-open: the upper wall is the image of the lower one
            g2 = []
            for g in gs:
                g = tuple(0.0 if t == 1.0 else t for t in g)
                if all(pick(g) != pick(h) for h in g2):
                    g2.append(g)
            gs = g2
        m = None if mask is None else (list(mask) + [True] * len(gs))[:len(gs)]
        out.append({'kind': 'scenario', 'dim': dim, 'periodic': bool(periodic), 'anchor': list(a), 'width': list(w), 'gens': [list(pick(g)) for g in gs], 'mask': m})
    return out


def upper_wall_periodic_scenarios(dim=3):
    """periodic boxes with a generator whose coordinate equals anchor + width on an active axis (accepted input: it is the image of a point on the
    lower wall), no other generator on the opposite wall"""
    out = []
    a, w = (0.0, 0.0, 0.0), (1.0, 1.25, 0.75)
    for gs in ([(1.0, 0.4, 0.6), (0.3, 0.5, 0.3)], [(0.4, 1.0, 0.6), (0.3, 0.5, 0.3), (0.7, 0.2, 0.5)], [(1.0, 1.0, 1.0), (0.5, 0.5, 0.5)]):
        gens = [[a[k] + g[k] * w[k] if k < dim else 0.0 for k in range(3)] for g in gs]
        if len({tuple(g) for g in gens}) != len(gens):
            continue
        out.append({'kind': 'scenario', 'dim': dim, 'periodic': True, 'anchor': list(a), 'width': list(w), 'gens': gens, 'mask': None})
    return out


def clustered_scenarios(dim=1, periodic=False, mask=None):
    """clusters along x (several nearest neighbours on the same side of a generator) - valid, non-degenerate inputs"""
    out = []
    a, w = (0.0, 0.0, 0.0), (1.0, 1.25, 0.75)
    rng = random.Random(99 + dim)
    for xs in ([0.1, 0.5, 0.55, 0.6, 0.9], [0.05, 0.1, 0.16, 0.8], [0.2, 0.7, 0.74, 0.79, 0.85, 0.95], [0.48, 0.5, 0.53]):
        gens = []
        for x in xs:
            y = w[1] * (0.5 + 0.05 * (rng.random() - 0.5)) if dim >= 2 else 0.0
            z = w[2] * (0.5 + 0.05 * (rng.random() - 0.5)) if dim >= 3 else 0.0
            gens.append([x, y, z])
        m = None if mask is None else (list(mask) + [True] * len(gens))[:len(gens)]
        out.append({'kind': 'scenario', 'dim': dim, 'periodic': bool(periodic), 'anchor': list(a), 'width': list(w), 'gens': gens, 'mask': m})
    return out


def ring_scenario(dim, n):
    """one generator surrounded by n others (a cell with about n faces): ring in the x-y plane (2D) / spiral on a sphere (3D), radii slightly
    varied so that the set is not co-spherical"""
    a, w = (0.0, 0.0, 0.0), (1.0, 1.0, 1.0)
    c = (0.5, 0.5, 0.5 if dim == 3 else 0.0)
    gens = [list(c)]
    for k in range(n):
        r = 0.3 * (1.0 + 0.03 * ((k * 7919) % 13) / 13.0)
        if dim == 2:
            t = 2 * math.pi * k / n
            gens.append([c[0] + r * math.cos(t), c[1] + r * math.sin(t), 0.0])
        else:
            z = 1 - 2 * (k + 0.5) / n
            t = math.pi * (1 + 5 ** 0.5) * k
            q = math.sqrt(max(0.0, 1 - z * z))
            gens.append([c[0] + r * q * math.cos(t), c[1] + r * q * math.sin(t), c[2] + r * z])
    return {'kind': 'scenario', 'dim': dim, 'periodic': False, 'anchor': list(a), 'width': list(w), 'gens': gens, 'mask': None}


def pair_scenarios(dim=2, periodic=True, mask=None):
    """few generators close together (sparse box): with periodic boundaries their cells border far-away and diagonal images"""
    out = []
    a, w = (0.0, 0.0, 0.0), (1.0, 1.25, 0.75)
    for gs in ([(0.5, 0.5, 0.5), (0.52, 0.53, 0.51)], [(0.5, 0.5, 0.5)], [(0.1, 0.1, 0.1), (0.15, 0.12, 0.13), (0.12, 0.16, 0.11)],
               [(0.9, 0.2, 0.6), (0.85, 0.25, 0.62)]):
        gens = [[a[k] + g[k] * w[k] if k < dim else 0.0 for k in range(3)] for g in gs]
        m = None if mask is None else (list(mask) + [True] * len(gens))[:len(gens)]
        out.append({'kind': 'scenario', 'dim': dim, 'periodic': bool(periodic), 'anchor': list(a), 'width': list(w), 'gens': gens, 'mask': m})
    return out


def scaled(sc, s, offset=(0.0, 0.0, 0.0)):
    """the same configuration at another length scale / position (tessellations are similarity invariant)"""
    ax = AX[sc['dim']]
    f = lambda v: [(v[a] * s + offset[a] * s) if a in ax else v[a] for a in range(3)]
    return dict(sc, anchor=f(sc['anchor']), width=[sc['width'][a] * s if a in ax else sc['width'][a] for a in range(3)], gens=[f(g) for g in sc['gens']])


BATTERY_PIDS = ('C02', 'C03', 'C04', 'C05', 'C06', 'C07', 'C08', 'C12', 'C13', 'C16')


def battery(seed=0):
    out = []
    for dim in (1, 2, 3):
        for per in (False, True):
            for n in (1, 2, 3, 4, 5):
                masks = [None]
                if n >= 2:
                    masks += [[(k * 7 + seed) % 3 != 0 for k in range(n)], [k % 2 == 1 for k in range(n)], [k == n - 1 for k in range(n)],
                              [k == 0 for k in range(n)], [k < 2 for k in range(n)]]
                for m in masks:
                    for sd in (seed, seed + 1):
                        out.append(scenario(dim, per, n, m, adjacent=(n - 1, 0) if n >= 2 else None, seed=sd))
            out.extend(wall_scenarios(dim, per))
            out.extend(wall_scenarios(dim, per, mask=[False, True, True]))
            out.extend(pair_scenarios(dim, per))
            if per:
                out.extend(upper_wall_periodic_scenarios(dim))
            out.extend(clustered_scenarios(dim, per))
            for s_, off_ in ((1e-9, (0.0, 0.0, 0.0)), (1e-17, (0.0, 0.0, 0.0)), (3e6, (7.0, -3.0, 11.0))):
                out.append(scaled(scenario(dim, per, 4, None, seed=seed + 3), s_, off_))
                out.append(scaled(scenario(dim, per, 5, [True, False, True, True, False], seed=seed + 4), s_, off_))
            out.extend(clustered_scenarios(dim, per, mask=[True, False, True, True, False, True]))
    return out


def fallback(run):
    """Used only when the solver-based part of a check ended WITHOUT a verdict (encoding aborted on an unsupported construct, solver
    unknown, or a counterexample that its dedicated replay did not reproduce): a fixed battery of public-API scenarios is evaluated
    against the statements of this property.  A violation observed on the real code is reported as such (it is real whatever found it);
    observing nothing changes nothing - the run stays inconclusive / suspect and is never turned into a pass."""
    if run.pid not in BATTERY_PIDS:
        return
    n = 0
    scs = battery(run.seed)
    try:
        for prof in ('debug', 'release'):
            allres = run_many(scs, prof)
            hit = False
            for sc, res in zip(scs, allres):
                n += 1
                v = violations(sc, prof, only=(run.pid,), res=res)
                if v:
                    txt = '%s [%s build]' % ('; '.join('%s: %s' % x for x in v[:2]), prof)
                    path = engine.save_replay(run.pid, dict(sc, expect=txt))
                    run.violation('no solver verdict (%s); native fallback battery, scenario %d: %s' % ((run.suspect + run.inconclusive)[0][:160], n, txt), path)
                    hit = True
                    break
            if hit:
                break
    except engine.Inconclusive as e:
        run.notes.append('native fallback battery aborted: %s' % str(e)[:200])
        return
    run.notes.append('native fallback battery after a run without solver verdict: %d public-API scenarios evaluated' % n)
