"""Obligations about the wrapping nearest-neighbour search taken from the MIR of rtree_nn.rs
(shared by C03.b, C06, C08.d, C17)."""
import itertools
import re
import json
from fractions import Fraction

import z3

from mirsym import engine
from mirsym.engine import Inconclusive
from mirsym.interp import Agg, Var, Ref, State, Opaque, UNIT, to_z3, is_z3
from .common import Call, rvec, hyps_of, zdot, vsub, vadd, model_floats, all_vars, nice_model
from . import facerule as FR


def generator(loc, gid):
    return engine.make_struct('src/voronoi/generator.rs', 'Generator', loc=loc, id=gid)


# ------------------------------------------------------------------------------------------------ natives

def native_nn_sequence(dim, periodic, width, query, gens, limit, profile='debug'):
    d = {'OneD': 1, 'TwoD': 2, 'ThreeD': 3}[dim]
    line = 'nn_sequence %d %d %s %s %d %d %s' % (d, 1 if periodic else 0, ' '.join(engine.f2s(x) for x in width),
                                                ' '.join(engine.f2s(x) for x in query), limit, len(gens),
                                                ' '.join(' '.join(engine.f2s(x) for x in g) for g in gens))
    o = engine.native([line], profile)[0]
    if o[0] != 'ok':
        return None
    toks = o[1:]
    out = []
    k = 0
    while k < len(toks):
        gid = int(toks[k]); k += 1
        if toks[k] == '1':
            out.append((gid, tuple(float(x) for x in toks[k + 1:k + 4]))); k += 4
        else:
            out.append((gid, None)); k += 1
    return out


def expected_shifts(dim, width):
    rng = {'OneD': ([-1, 0, 1], [0], [0]), 'TwoD': ([-1, 0, 1], [-1, 0, 1], [0]), 'ThreeD': ([-1, 0, 1],) * 3}[dim]
    return [(i * width[0], j * width[1], k * width[2]) for i in rng[0] for j in rng[1] for k in rng[2]]


def check_images_native(p, profile='debug'):
    """one generator in the centre of a periodic box: the visit sequence must consist of the generator without
    shift followed by each of its 3^d - 1 images exactly once, identified by the lattice vector"""
    dim, width = p['dim'], p['width']
    q = [0.5 * w for w in width]
    n = {'OneD': 3, 'TwoD': 9, 'ThreeD': 27}[dim]
    seq = native_nn_sequence(dim, True, width, q, [q], n + 3, profile)
    if seq is None:
        return 'native nn sequence panicked'
    if len(seq) != n:
        return 'visited %d candidates, expected %d' % (len(seq), n)
    if seq[0] != (0, None):
        return 'first candidate is %r, expected the generator itself without shift' % (seq[0],)
    # reported shift = -(query shift); the set is symmetric so compare as sets of lattice vectors
    exp = {tuple(round(-x, 12) + 0.0 for x in s) for s in expected_shifts(dim, width)}
    got = set()
    for gid, sh in seq:
        v = (0.0, 0.0, 0.0) if sh is None else sh
        if sh is not None and all(x == 0.0 for x in sh):
            return 'zero shift reported as Some'
        got.add(tuple(round(x, 12) + 0.0 for x in v))
    if len(got) != n:
        return 'an image was visited twice or a non-zero shift was reported as absent: %r' % (sorted(got),)
    if got != exp:
        return 'reported shifts %r are not the lattice vectors %r' % (sorted(got - exp), sorted(exp - got))
    return None


def replay(d):
    if d['kind'] == 'nn_images':
        bad = check_images_native(d, d.get('profile', 'debug'))
        print(bad)
        return 1 if bad else 0
    raise Inconclusive('unknown replay kind ' + d['kind'])


def confirm_images(run, pid, what, dim, width):
    for prof in ('debug', 'release'):
        p = {'kind': 'nn_images', 'dim': dim, 'width': [float(x) for x in width], 'profile': prof}
        bad = check_images_native(p, prof)
        if bad:
            path = engine.save_replay(pid, p)
            run.violation('%s: %s (single generator, periodic %s box of width %r, %s build)' % (what, bad, dim, p['width'], prof), path)
            return True
    run.suspect.append('%s: counterexample (dim %s, width %r) does not reproduce natively' % (what, dim, [float(x) for x in width]))
    return False


# ------------------------------------------------------------------------------------------------ obligations

def shift_closure(run, funcs, pid):
    """wrapping_nn_iter::{closure#0}: (g, dist, shift) -> (g.id, None if shift == 0 else Some(-shift))"""
    s = rvec('qs')
    gid = z3.Int('gid')
    g = generator(rvec('gl'), gid)
    cands = [n for n in funcs if re.match(r'^wrapping_nn_iter::\{closure#\d+\}$', n) and len(funcs[n].params) == 2 and 'Option<' in funcs[n].ret_ty]
    if len(cands) != 1:
        raise Inconclusive('mapping closure of wrapping_nn_iter not identified: %r' % cands)
    name = cands[0]
    interp = engine.new_interp(funcs)
    st = State()
    st.heap[1] = g
    st.heap[2] = Agg('closure', ())
    arg = Agg('tuple', (Ref(('H', 1)), z3.Real('dist'), Agg('array', s.items)))
    outs = interp.exec_fn(st, name, [Ref(('H', 2)), arg], {})
    run.add_functions(interp, funcs)
    zero = z3.And([x == 0 for x in s.items])
    for k, (st2, v) in enumerate(outs):
        rid, rsh = v.items
        H = hyps_of(st2)
        if rsh.name == 'None':
            goal = z3.And(zero, to_z3(rid) == gid)
            what = 'shift reported as absent only if the query shift is exactly zero'
        else:
            goal = z3.And(z3.Not(zero), to_z3(rid) == gid, *[to_z3(a) == -b for a, b in zip(rsh.items[0].items, s.items)])
            what = 'reported shift = -(query shift), non-zero'
        v_, m = run.prove('%s shift convention, path %d: %s' % (pid, k, what), H, z3.Not(goal), timeout=20, on_sat='caller')
        if v_ == 'sat':
            vals = model_floats(m, list(s.items))
            width = [abs(vals[str(x)]) if vals[str(x)] != 0 else 1.0 for x in s.items]
            confirm_images(run, pid, '%s shift convention' % pid, 'ThreeD', width)
    # coverage: the paths partition all shifts
    run.prove('%s shift convention: paths cover every query shift' % pid, [],
              z3.Not(z3.Or([z3.And(hyps_of(st2) + [z3.BoolVal(True)]) for st2, v in outs])), timeout=20, cross=False)


def image_set(run, funcs, pid, dims=FR.DIMS):
    """RTreeWrappingNearestNeighbourIter::new pushes the root's children once per shift in {-w,0,w}^d x {0}^(3-d)"""
    w = [z3.Real('w%d' % k) for k in range(3)]
    name = engine.find_fn(funcs, r'rtree_nn::<impl at src/rtree_nn.rs:\d+:\d+: \d+:\d+>::new$')
    for dim in dims:
        rec = []

        def extend_heap(i, st, a, c):
            st.events.append(('extend_heap', a[2]))
            return UNIT
        interp = engine.new_interp(funcs, overrides={
            'RTreeWrappingNearestNeighbourIter::extend_heap': extend_heap,
            'BinaryHeap::with_capacity': lambda i, st, a, c: Opaque('heap'),
            'ParentNode::children': lambda i, st, a, c: Opaque('children'),
        })
        st = State()
        st.pc.extend([x > 0 for x in w])
        q = Agg('array', [z3.Real('q%d' % k) for k in range(3)])
        outs = interp.exec_fn(st, name, [Opaque('root'), q, Agg('array', w), FR.dimv(dim)], {})
        run.add_functions(interp, funcs)
        if len(outs) != 1:
            raise Inconclusive('rtree iterator constructor: %d paths' % len(outs))
        st2, v = outs[0]
        shifts = [e[1] for e in st2.events if e[0] == 'extend_heap']
        exp = expected_shifts(dim, w)
        n = {'OneD': 3, 'TwoD': 9, 'ThreeD': 27}[dim]
        pre = [x > 0 for x in w]
        bad_width = None
        if len(shifts) != n:
            run.suspect.append('%s image set %s: %d heap extensions, expected %d' % (pid, dim, len(shifts), n))
            bad_width = [1.0, 1.5, 2.5]
        else:
            # as multisets: every expected lattice vector occurs exactly once among the recorded shifts
            eqs = []
            for e in exp:
                cnt = z3.Sum([z3.If(z3.And([to_z3(a) == to_z3(b) for a, b in zip(sh.items, e)]), 1, 0) for sh in shifts])
                eqs.append(cnt == 1)
            v_, m = run.prove('%s image set %s: exactly the %d lattice vectors {-w,0,w}^d, each once' % (pid, dim, n), pre, z3.Not(z3.And(eqs)),
                              timeout=30, on_sat='caller', sample={'dim': dim, 'shifts': n})
            if v_ == 'sat':
                bad_width = [float(engine.model_value(m, x)) for x in w]
            # closed under negation (the reverse side sees the negated shift)
            neg = []
            for sh in shifts:
                neg.append(z3.Or([z3.And([to_z3(a) == -to_z3(b) for a, b in zip(sh.items, sh2.items)]) for sh2 in shifts]))
            run.prove('%s image set %s: closed under negation' % (pid, dim), pre, z3.Not(z3.And(neg)), timeout=30, cross=False)
            # the query point handed to the iterator is the generator position
            qp = v.items[engine.field_index('src/rtree_nn.rs', 'RTreeWrappingNearestNeighbourIter', 'query_point')]
            run.prove('%s image set %s: query point stored unchanged' % (pid, dim), pre,
                      z3.Not(z3.And([to_z3(a) == b for a, b in zip(qp.items, q.items)])), timeout=10, cross=False)
        if bad_width:
            confirm_images(run, pid, '%s image set %s' % (pid, dim), dim, bad_width)


def nn_pipeline(run, funcs, pid):
    """`wrapping_nn_iter` / `nn_iter` as a whole: whatever the search yields is handed to the builder - every element, in order, relabelled
    (id, shift convention) and nothing else (no element dropped, truncated, filtered or reordered).  The search itself is a harness list of
    three results with symbolic generators, distances (non-decreasing) and shifts."""
    from mirsym.models import list_iter
    from . import oracle as OR
    gens = [generator(rvec('pg%d' % k), z3.Int('pgid%d' % k)) for k in range(3)]
    ds = [z3.Real('pd%d' % k) for k in range(3)]
    shs = [Agg('array', [z3.Real('ps%d_%d' % (k, c)) for c in range(3)]) for k in range(3)]
    for fname, periodic in ((r'^wrapping_nn_iter$', True), (r'^nn_iter$', False)):
        st = State()
        for k in range(3):
            st.heap[20 + k] = gens[k]
        if periodic:
            items = [Agg('tuple', (Ref(('H', 20 + k)), ds[k], shs[k])) for k in range(3)]
        else:
            items = [Ref(('H', 20 + k)) for k in range(3)]
        ov = {'RTree::root': lambda i, s, a, c: Opaque('root'),
              'RTreeWrappingNearestNeighbourIter::new': lambda i, s, a, c: list_iter(items),
              'RTree::nearest_neighbor_iter': lambda i, s, a, c: list_iter(items)}
        interp = engine.new_interp(funcs, overrides=ov)
        width = rvec('pw')
        pre = [ds[0] >= 0, ds[0] <= ds[1], ds[1] <= ds[2]] + [to_z3(w) > 0 for w in width.items]
        st.pc.extend(pre)
        name = engine.find_fn(funcs, fname)
        args = [Opaque('rtree'), rvec('ploc')] + ([width, FR.dimv('ThreeD')] if periodic else [])
        outs = interp.exec_fn(st, name, args, {})
        run.add_functions(interp, funcs)
        for k, (s2, v) in enumerate(outs):
            got = list(v.items) if isinstance(v, Agg) and v.tag == 'ListIter' else None
            H = hyps_of(s2)
            if got is None or len(got) != 3:
                vv, m = 'sat', None
                run.obligations.append({'name': '%s %s path %d: all three search results are handed on' % (pid, fname.strip('^$'), k), 'expect': 'unsat', 'verdict': 'sat',
                                        'solver': 'structural comparison', 'solver_s': 0.0, 'detail': 'result %r' % (got if got is None else len(got),)})
            else:
                conds = []
                for j, t in enumerate(got):
                    rid, rsh = t.items
                    conds.append(to_z3(rid) == to_z3(gens[j].items[engine.field_index('src/voronoi/generator.rs', 'Generator', 'id')]))
                    if periodic:
                        zero = z3.And([x == 0 for x in shs[j].items])
                        if rsh.name == 'None':
                            conds.append(zero)
                        else:
                            conds.append(z3.And([z3.Not(zero)] + [to_z3(a) == -b for a, b in zip(rsh.items[0].items, shs[j].items)]))
                    else:
                        conds.append(z3.BoolVal(rsh.name == 'None'))
                vv, m = run.prove('%s %s path %d: the three search results are handed on in order as (id, shift convention)' % (pid, fname.strip('^$'), k), H,
                                  z3.Not(z3.And(conds)), timeout=20, cross=False, on_sat='caller')
            if vv == 'sat':
                what = '%s %s: a search result is dropped / altered before it reaches the builder (path %d)' % (pid, fname.strip('^$'), k)
                extra = []
                for d in (1, 2, 3):
                    extra += OR.clustered_scenarios(d, periodic) + OR.pair_scenarios(d, periodic)
                if not OR.confirm_family(pid, run, what, 2, periodic, None, (0, 1), extra=extra):
                    run.suspect.append(what + ' - no public-API scenario shows a difference')
                break
    run.bound('neighbour pipeline: three search results with symbolic generators / distances / shifts')


def shift_reciprocity(run, funcs, pid):
    shift_closure(run, funcs, pid)
    image_set(run, funcs, pid)
    nn_pipeline(run, funcs, pid)
    run.bound('periodic image enumeration: symbolic positive widths; dimensionality enumerated (1D/2D/3D)')
