"""C18 (and C05/C15 support): the real `ConvexCell::clip_by_plane` + `compute_boundary` + `SimpleCycle` from the MIR, executed on
catalogue cells whose combinatorial structure is concrete, with the float leaves abstracted:

  * the new plane is symbolic (normal n, offset d, error bound errb > 0); `HalfSpace::clip` is the REAL code, so the sign pattern
    over the (concrete) vertex positions is constrained by the solver to the patterns an affine function can produce;
  * `in_sphere_test_exact` returns, per vertex (keyed by its set of dual planes), an uninterpreted sign in {-1,0,1};
  * `iloc` / `right_loc` / `Vertex::from_dual` / `update_safety_radius` are recorders.

Checked per path: a vertex is removed iff (clip < 0) or (clip == 0 and exact < 0); the new vertices are exactly one per edge of
the boundary cycle, as (cur, next, new plane); the result is a closed polytope (every plane pair of a vertex is shared by exactly
two vertices); the result depends only on the set of removed vertices - not on the storage order of the vertex array nor on the
rotation of each dual triple (compared across seeded permutations)."""
import itertools
import json
import random
from fractions import Fraction

import z3

from mirsym import engine
from mirsym.engine import Inconclusive
from mirsym.interp import Agg, Var, Ref, State, Opaque, UNIT, to_z3, is_z3, Unsupported
from .common import rvec, none, some, hyps_of, real_cycle
from . import facerule as FR
from .buildrules import rec, pcs

F = Fraction

# catalogue: (name, planes [(n, p)], vertices [(dual, loc)])  - the initial cell of ConvexCell::init on the unit cube and a tetrahedron
CUBE_PLANES = [((1, 0, 0), (0, 0, 0)), ((-1, 0, 0), (1, 1, 1)), ((0, 1, 0), (0, 0, 0)), ((0, -1, 0), (1, 1, 1)), ((0, 0, 1), (0, 0, 0)), ((0, 0, -1), (1, 1, 1))]
CUBE_DUALS = [(2, 5, 0), (5, 3, 0), (1, 5, 2), (5, 1, 3), (4, 2, 0), (4, 0, 3), (2, 4, 1), (4, 3, 1)]


def cube_loc(dual):
    x = 0 if 0 in dual else 1
    y = 0 if 2 in dual else 1
    z = 0 if 4 in dual else 1
    return (x, y, z)


def init_duals_from_mir(funcs):
    """the eight dual triples of ConvexCell::init, read from the MIR (so that a changed orientation is tracked)"""
    name = engine.find_fn(funcs, r'convex_cell::<impl at [^>]*>::init$')
    f = funcs[name]
    duals = []
    for b in sorted(f.blocks.values(), key=lambda b: int(b.name[2:])):
        t = b.term
        if t[0] == 'call' and 'from_dual' in t[2]:
            ops = t[3][:3]
            if all(o[0] == 'const' for o in ops):
                duals.append(tuple(int(o[1].split('_')[0]) for o in ops))
    if len(duals) != 8:
        raise Inconclusive('ConvexCell::init: expected 8 constant dual triples, found %r' % (duals,))
    return duals


def mk_cell(planes, verts, boundary_n, loc=(F(1, 2), F(1, 2), F(1, 2))):
    hs = [FR.half_space(Agg('DVec3', [F(x) for x in n]), Agg('DVec3', [F(x) for x in p]), none(), none(), d=F(sum(a * b for a, b in zip(n, p))), errb=F(1, 10 ** 13))
          for n, p in planes]
    vs = [engine.make_struct('src/voronoi/convex_cell.rs', 'Vertex', loc=Agg('DVec3', [F(x) for x in loc]), dual=Agg('array', dual), radius2=F(1))
          for dual, loc in verts]
    cyc = real_cycle(engine.load_mir('ibig')[0], boundary_n)
    return engine.make_struct('src/voronoi/convex_cell.rs', 'ConvexCell', idx=0, loc=Agg('DVec3', [F(x) for x in loc]), clipping_planes=Agg('Vec', hs),
                              vertices=Agg('Vec', vs), faces=none(), face_vertex_connections=none(), boundary=cyc,
                              safety_radius=F(4), dimensionality=FR.dimv('ThreeD'), _phantom=Agg('zst:PhantomData', ()))


def canon(tri):
    """cyclic canonical form of a dual triple"""
    t = tuple(tri)
    k = t.index(min(t))
    return t[k:] + t[:k]


def run_clip(run, funcs, planes, verts, sym):
    """one symbolic execution of clip_by_plane; returns list of (state, removed set, result triples, events)"""
    n_pl = len(planes)
    cell = mk_cell(planes, verts, n_pl, sym['loc'])
    new_plane = FR.half_space(sym['n'], rvec('newp'), some(7), none(), d=sym['d'], errb=sym['errb'])
    vx = lambda v, nm: v.items[engine.field_index('src/voronoi/convex_cell.rs', 'Vertex', nm)]

    def exact(i, st, a, c):
        # the vertex under test is identified by the three `right_loc` recorder calls that precede it
        keys = [e[1] for e in st.events if e[0] == 'right_loc'][-4:-1]
        key = frozenset(keys)
        st.events.append(('exact', key))
        return sym['exact'](key)

    def right_loc(i, st, a, c):
        h = i.deref_read(st, a[0])
        # identify the plane by its position in the cell (wall planes) or as the new plane
        rid = FR.hs_label(h)
        st.events.append(('right_loc', rid))
        return Agg('DVec3', [F(0)] * 3)

    def from_dual(i, st, a, c):
        st.events.append(('from_dual', (a[0], a[1], a[2])))
        return engine.make_struct('src/voronoi/convex_cell.rs', 'Vertex', loc=Agg('DVec3', [F(9)] * 3), dual=Agg('array', (a[0], a[1], a[2])), radius2=F(1))

    ov = {'in_sphere_test_exact': exact, 'HalfSpace::right_loc': right_loc, 'SimulationBoundary::iloc': lambda i, st, a, c: Agg('array', (0, 0, 0)),
          'Vertex::from_dual': from_dual, 'convex_cell::ConvexCell::update_safety_radius': lambda i, st, a, c: UNIT}
    interp = engine.new_interp(funcs, overrides=ov, max_visits=200000, max_paths=200000)
    name = engine.find_fn(funcs, r'convex_cell::<impl at [^>]*>::clip_by_plane$')
    st = State()
    st.pc.extend(sym['pre'])
    st.heap[1] = cell
    st.heap[2] = Agg('array', ())
    st.heap[3] = engine.make_struct('src/voronoi/boundary.rs', 'SimulationBoundary', anchor=Opaque('anchor'), inverse_width=Opaque('iw'),
                                    dimensionality=FR.dimv('ThreeD'), clipping_planes=Opaque('planes'))
    outs = interp.exec_fn(st, name, [Ref(('H', 1)), new_plane, Ref(('H', 2)), Ref(('H', 3))], {})
    run.add_functions(interp, funcs)
    res = []
    cc = lambda v, nm: v.items[engine.field_index('src/voronoi/convex_cell.rs', 'ConvexCell', nm)]
    for s, _ in outs:
        c2 = s.heap[1]
        tri = [tuple(vx(v, 'dual').items) for v in cc(c2, 'vertices').items]
        res.append((s, tri, len(cc(c2, 'clipping_planes').items)))
    return res, interp


def hs_label(h):
    r = h.items[engine.field_index('src/voronoi/half_space.rs', 'HalfSpace', 'right_idx')]
    if r.name == 'Some':
        return 'new'
    n = h.items[engine.field_index('src/voronoi/half_space.rs', 'HalfSpace', 'plane')].items[0]
    return tuple(n.items)


FR.hs_label = hs_label


def symbols(verts, loc=(F(1, 2), F(1, 2), F(1, 2))):
    n = rvec('cn')
    d = z3.Real('cd')
    errb = z3.Real('cerrb')
    ex = {}

    def exact(key):
        if key not in ex:
            v = z3.Real('exact_%d' % len(ex))
            ex[key] = v
        return ex[key]
    # the generator of the cell lies strictly on the kept side of every bisector (it is dist/2 away from it)
    gside = sum(to_z3(a) * b for a, b in zip(n.items, loc)) - d
    return {'n': n, 'd': d, 'errb': errb, 'exact': exact, 'ex': ex, 'pre': [errb > 0, gside >= errb], 'loc': loc}


class _MiniRun:
    """collects what a worker process produces (plain data only)"""

    def __init__(self):
        self.obligations, self.suspect, self.inconclusive, self.violations, self.functions = [], [], [], [], {}
        self.solver_time = 0.0
        self.cross = False
        self.tier = 'quick'

    prove = engine.Run.prove
    add_functions = engine.Run.add_functions

    def violation(self, what, path):
        self.violations.append((what, path))


def _worker(args):
    pid, cname, planes, verts, seed, max_ties, loc = args
    funcs, _ = engine.load_mir('ibig')
    mr = _MiniRun()
    by_removed, paths = check_cell_order(mr, funcs, pid, cname, planes, verts, seed, max_ties, loc)
    return {'seed': seed, 'by_removed': {tuple(sorted(map(tuple, map(sorted, k)))): sorted(v[0]) for k, v in by_removed.items()}, 'paths': paths,
            'obligations': mr.obligations, 'suspect': mr.suspect, 'inconclusive': mr.inconclusive, 'violations': mr.violations,
            'functions': mr.functions, 'solver_time': mr.solver_time}


def check_cell(run, funcs, pid, cname, planes, verts, seeds, max_ties=8, procs=8, loc=(F(1, 2), F(1, 2), F(1, 2))):
    """all obligations for one catalogue cell, over several storage orders / dual rotations (one process per order)"""
    import multiprocessing as mp
    orders = [None] + list(seeds)
    jobs = [(pid, cname, planes, verts, sd, max_ties, loc) for sd in orders]
    with mp.get_context('fork').Pool(min(procs, len(jobs))) as pool:
        results = pool.map(_worker, jobs)
    merged = {}
    total = 0
    for r in results:
        total += r['paths']
        run.obligations.extend(r['obligations'])
        run.suspect.extend(r['suspect'])
        run.inconclusive.extend(r['inconclusive'])
        run.functions.update(r['functions'])
        run.solver_time += r['solver_time']
        for w, pth in r['violations']:
            run.violation(w, pth)
        for k, v in r['by_removed'].items():
            if k in merged and merged[k][0] != v:
                run.suspect.append('%s %s: clipping depends on vertex storage order / dual rotation: removed %r gives %r (order %s) vs %r (order %s)' % (
                    pid, cname, k, v, r['seed'], merged[k][0], merged[k][1]))
            merged.setdefault(k, (v, r['seed']))
    ok = not [x for x in run.suspect if cname in x]
    run.obligations.append({'name': '%s %s: result depends only on the removed set (%d removed sets, %d storage orders/rotations, %d symbolic paths, at most %d ties per path)' % (
        pid, cname, len(merged), len(orders), total, max_ties), 'expect': 'unsat', 'verdict': 'unsat' if ok else 'sat',
        'solver': 'structural comparison of the per-path results', 'solver_s': 0.0})
    run.samples.append({'cell': cname, 'removed_sets': len(merged), 'paths': total, 'orders': len(orders), 'max_ties': max_ties})
    return merged


def check_cell_order(run, funcs, pid, cname, planes, verts, seed, max_ties, loc):
    by_removed = {}
    p_new = len(planes)
    wall_key = {}
    for k, (n, p) in enumerate(planes):
        wall_key[tuple(F(x) for x in n)] = k
    total_paths = 0
    for seed in [seed]:
        vs = list(verts)
        if seed is not None:
            rng = random.Random(seed)
            rng.shuffle(vs)
            vs = [((d[r:] + d[:r]), loc) for (d, loc), r in zip(vs, [rng.randrange(3) for _ in vs])]
        sym = symbols(vs, loc)
        # bound on the number of simultaneous ties (vertices inside the error band of the new plane)
        ties = []
        for d_, loc_ in vs:
            c_ = sum(to_z3(a) * b for a, b in zip(sym['n'].items, loc_)) - sym['d']
            ties.append(z3.If(z3.And(c_ < sym['errb'], -c_ < sym['errb']), 1, 0))
        sym['pre'].append(z3.Sum(ties) <= max_ties)
        res, interp = run_clip(run, funcs, planes, vs, sym)
        for v in sym['ex'].values():
            pass
        for pc, msg, pst in interp.panics:
            # disconnected removal sets cannot come from a convex cut with consistent tie decisions: the panic path must be infeasible
            # when ties are decided consistently, i.e. here we only require: no panic when no tie occurs (all |clip| >= errb)
            H = list(pc)
            ties = [e for e in pst.events if e[0] == 'exact']
            if not ties:
                run.prove('%s %s[order %s]: no panic without ties (%s)' % (pid, cname, seed, msg[:40]), H, True, timeout=30, cross=False)
        total_paths += len(res)
        for s, tri, npl in res:
            H = pcs(s)
            orig = {frozenset(d): (d, loc) for d, loc in vs}
            kept = [t for t in tri if p_new not in t]
            newv = [t for t in tri if p_new in t]
            removed = frozenset(k for k in orig if k not in {frozenset(t) for t in kept})
            # (1) removal rule, per original vertex, decided by the solver from the path condition
            exact_keys = {}
            for e in s.events:
                if e[0] == 'exact':
                    exact_keys[frozenset((p_new if x == 'new' else wall_key.get(x, p_new)) for x in e[1])] = sym['ex'][e[1]]
            conds = []
            for k, (dual, loc) in orig.items():
                c = sum(to_z3(a) * b for a, b in zip(sym['n'].items, loc)) - sym['d']
                absc = z3.If(c >= 0, c, -c)
                tie = absc < sym['errb']
                ev = exact_keys.get(k)
                rem = z3.And(z3.Not(tie), c < 0) if ev is None else z3.Or(z3.And(z3.Not(tie), c < 0), z3.And(tie, ev < 0))
                if ev is None:
                    # no exact test was made for this vertex: it must not be a tie
                    conds.append(z3.Not(tie))
                conds.append(rem if k in removed else z3.Not(rem))
            vv, m = run.prove('%s %s[order %s]: a vertex is removed iff clip < 0, or clip is inside the error band and the exact predicate is negative (removed %d of %d)'
                              % (pid, cname, seed, len(removed), len(orig)), H, z3.Not(z3.And(conds)), timeout=30, cross=False, on_sat='caller')
            if vv == 'sat':
                pl = {'kind': 'clip_tie'}
                bad = check_clip_tie_native(pl)
                if bad:
                    run.violation('%s %s: %s' % (pid, cname, bad), engine.save_replay(pid, pl))
                else:
                    run.suspect.append('%s %s[order %s]: removal rule violated on a symbolic path (removed %r) but the native tie scenario shows no difference' % (pid, cname, seed, sorted(map(sorted, removed))))
            if not removed:
                if npl != len(planes) or newv:
                    run.suspect.append('%s %s: plane added although nothing was clipped' % (pid, cname))
                continue
            # (2) closed polytope with three planes per vertex: every plane pair of a vertex is shared by exactly two vertices
            pairs = {}
            for t in tri:
                if len(set(t)) != 3:
                    run.suspect.append('%s %s: degenerate dual %r' % (pid, cname, t))
                for a, b in itertools.combinations(sorted(t), 2):
                    pairs[(a, b)] = pairs.get((a, b), 0) + 1
            if any(v != 2 for v in pairs.values()):
                run.suspect.append('%s %s[order %s]: result is not a closed polytope after removing %r: edge multiplicities %r' % (
                    pid, cname, seed, sorted(map(sorted, removed)), {k: v for k, v in pairs.items() if v != 2}))
            # (3) one new vertex per boundary edge, written (cur, next, new plane)
            if any(t[2] != p_new for t in newv):
                run.suspect.append('%s %s: new vertices must be (cur, next, new plane): %r' % (pid, cname, newv))
            # (4) orientation: the cyclic order of each new triple agrees with the canonical run (same removed set)
            result = frozenset(canon(t) for t in tri)
            prev = by_removed.get(removed)
            if prev is None:
                by_removed[removed] = (result, seed)
            elif prev[0] != result:
                run.suspect.append('%s %s: clipping depends on vertex storage order / dual rotation: removed %r gives %r (order %s) vs %r (order %s)' % (
                    pid, cname, sorted(map(sorted, removed)), sorted(result), seed, sorted(prev[0]), prev[1]))
    return by_removed, total_paths


def fan_boundary(run, funcs, pid, sizes=(20, 40), nseeds=8):
    """`compute_boundary` on a LARGE connected removed set - the fan of N vertices around one plane (top of an N-sided prism) - under seeded
    storage orders and dual rotations, executed concretely through the MIR: it must never give up and must reconstruct the same boundary
    cycle whatever the order (the greedy search may have to look arbitrarily far ahead in the vertex array)"""
    name = engine.find_fn(funcs, r'convex_cell::<impl at [^>]*>::compute_boundary$')
    total = 0
    for N in sizes:
        top = 0
        verts = [(top, 1 + k, 1 + (k + 1) % N) for k in range(N)]       # duals (top, side_k, side_k+1), counter-clockwise
        canon = None
        for seed in [None] + [run.seed * 100 + N + s for s in range(nseeds)]:
            vs = list(verts)
            if seed is not None:
                rng = random.Random(seed)
                rng.shuffle(vs)
                vs = [d[r:] + d[:r] for d, r in zip(vs, [rng.randrange(3) for _ in vs])]
            interp = engine.new_interp(funcs, max_visits=2000000)
            st = State()
            st.heap[1] = real_cycle(funcs, N + 1)
            st.heap[2] = Agg('Vec', [engine.make_struct('src/voronoi/convex_cell.rs', 'Vertex', loc=Agg('DVec3', [F(0)] * 3), dual=Agg('array', d), radius2=F(1)) for d in vs])
            outs = interp.exec_fn(st, name, [Ref(('H', 1)), Ref(('H', 2))], {})
            run.add_functions(interp, funcs)
            total += 1
            if len(outs) != 1 or interp.panics:
                msg = interp.panics[0][1] if interp.panics else '%d paths' % len(outs)
                pl = {'kind': 'fan_boundary', 'n': N}
                bad = check_fan_native(pl)
                what = '%s compute_boundary gives up on the fan of %d vertices around one plane in storage order seed %s (%s)' % (pid, N, seed, msg[:60])
                if bad:
                    run.violation(what + '; natively: ' + bad, engine.save_replay(pid, pl))
                else:
                    run.suspect.append(what + ' - the native prism scenario is built without a panic')
                return
            cyc = outs[0][0].heap[1]
            it = engine.new_interp(funcs, max_visits=4000000)
            s2 = outs[0][0]
            iname = engine.find_fn(funcs, r'simple_cycle::<impl at [^>]*>::iter$')
            nname = engine.find_fn_where(funcs, r'simple_cycle::<impl at [^>]*>::next$', 'SimpleCycle2Iterator')
            o = it.exec_fn(s2, iname, [Ref(('H', 1))], {})
            s3, itv = o[0]
            s3.heap[9] = itv
            seq = []
            ln = cyc.items[engine.field_index('src/simple_cycle.rs', 'SimpleCycle', 'len')]
            for _ in range(ln):
                o = it.exec_fn(s3, nname, [Ref(('H', 9))], {})
                s3, v = o[0]
                seq.append(v.items[0])
            k0 = seq.index(min(seq))
            seq = tuple(seq[k0:] + seq[:k0])
            if canon is None:
                canon = seq
            elif seq != canon:
                run.suspect.append('%s compute_boundary: the boundary of the %d-fan depends on the storage order (seed %s)' % (pid, N, seed))
            if sorted(seq) != list(range(1, N + 1)):
                run.suspect.append('%s compute_boundary: boundary of the %d-fan is %r' % (pid, N, seq[:12]))
    run.obligations.append({'name': '%s compute_boundary on fans of %r vertices around one plane: %d seeded storage orders / dual rotations executed through the MIR, same boundary cycle each time'
                            % (pid, tuple(sizes), total), 'expect': 'unsat', 'verdict': 'unsat' if not [s for s in run.suspect if 'compute_boundary' in s] else 'sat',
                            'solver': 'concrete execution of the MIR + structural comparison', 'solver_s': 0.0})


def prism_cut(run, funcs, pid, N=24):
    """the real clip_by_plane on an N-gon prism whose whole top (N vertices, N > 16) is cut off by a horizontal plane: N new vertices, one per
    side edge, written (cur, next, new plane); the result is a closed polytope - for the canonical and for seeded storage orders"""
    import math
    planes = [((0, 0, -1), (0, 0, 1)), ((0, 0, 1), (0, 0, 0))]
    for k in range(N):
        t = 2 * math.pi * k / N
        planes.append(((-round(math.cos(t), 6), -round(math.sin(t), 6), 0), (round(math.cos(t), 6), round(math.sin(t), 6), 0)))
    verts = []
    for k in range(N):
        a, b = 2 + k, 2 + (k + 1) % N
        t = 2 * math.pi * (k + 0.5) / N
        x, y = round(math.cos(t), 6), round(math.sin(t), 6)
        verts.append(((0, a, b), (x, y, 1)))
        verts.append(((1, b, a), (x, y, 0)))
    p_new = len(planes)
    for seed in (None, run.seed * 10 + 1, run.seed * 10 + 2):
        vs = list(verts)
        if seed is not None:
            rng = random.Random(seed)
            rng.shuffle(vs)
            vs = [((d[r:] + d[:r]), l) for (d, l), r in zip(vs, [rng.randrange(3) for _ in vs])]
        cell = mk_cell(planes, vs, p_new, (F(0), F(0), F(1, 4)))
        new_plane = FR.half_space(Agg('DVec3', [F(0), F(0), F(-1)]), Agg('DVec3', [F(0), F(0), F(1, 2)]), some(7), none(), d=F(-1, 2), errb=F(1, 10 ** 13))
        ov = {'Vertex::from_dual': lambda i, st, a, c: engine.make_struct('src/voronoi/convex_cell.rs', 'Vertex', loc=Agg('DVec3', [F(9)] * 3), dual=Agg('array', (a[0], a[1], a[2])), radius2=F(1)),
              'convex_cell::ConvexCell::update_safety_radius': lambda i, st, a, c: UNIT}
        interp = engine.new_interp(funcs, overrides=ov, max_visits=4000000)
        name = engine.find_fn(funcs, r'convex_cell::<impl at [^>]*>::clip_by_plane$')
        st = State()
        st.heap[1] = cell
        st.heap[2] = Agg('array', ())
        st.heap[3] = engine.make_struct('src/voronoi/boundary.rs', 'SimulationBoundary', anchor=Opaque('anchor'), inverse_width=Opaque('iw'),
                                        dimensionality=FR.dimv('ThreeD'), clipping_planes=Opaque('planes'))
        outs = interp.exec_fn(st, name, [Ref(('H', 1)), new_plane, Ref(('H', 2)), Ref(('H', 3))], {})
        run.add_functions(interp, funcs)
        bad = None
        if len(outs) != 1 or interp.panics:
            bad = '%d normal paths, %d panics (%s)' % (len(outs), len(interp.panics), interp.panics[0][1][:60] if interp.panics else '')
        else:
            c2 = outs[0][0].heap[1]
            cc = lambda v, nm: v.items[engine.field_index('src/voronoi/convex_cell.rs', 'ConvexCell', nm)]
            vx = lambda v, nm: v.items[engine.field_index('src/voronoi/convex_cell.rs', 'Vertex', nm)]
            tri = [tuple(vx(v, 'dual').items) for v in cc(c2, 'vertices').items]
            newv = [t for t in tri if p_new in t]
            kept = [t for t in tri if p_new not in t]
            pairs = {}
            for t in tri:
                for a_, b_ in itertools.combinations(sorted(t), 2):
                    pairs[(a_, b_)] = pairs.get((a_, b_), 0) + 1
            if len(newv) != N or len(kept) != N or any(0 in t for t in tri):
                bad = '%d new vertices and %d kept ones (expected %d and %d)' % (len(newv), len(kept), N, N)
            elif any(v != 2 for v in pairs.values()):
                bad = 'result is not a closed polytope: %d edges with a wrong multiplicity' % len([1 for v in pairs.values() if v != 2])
            elif any(t[2] != p_new for t in newv) or {frozenset(t[:2]) for t in newv} != {frozenset((2 + k, 2 + (k + 1) % N)) for k in range(N)}:
                bad = 'new vertices are not one per side edge, written (cur, next, new plane)'
        if bad:
            pl = {'kind': 'fan_boundary', 'n': N}
            r = check_fan_native(pl)
            what = '%s clip_by_plane cutting the top off a %d-gon prism (storage order seed %s): %s' % (pid, N, seed, bad)
            if r:
                run.violation(what + '; natively: ' + r, engine.save_replay(pid, pl))
            else:
                run.suspect.append(what + ' - the native prism scenario is built correctly')
            break
    run.obligations.append({'name': '%s clip_by_plane on a %d-gon prism (new face with %d > 16 edges), 3 storage orders, through the MIR: %d new vertices along the boundary cycle, closed polytope'
                            % (pid, N, N, N), 'expect': 'unsat', 'verdict': 'sat' if [s for s in run.suspect if 'prism' in s] or [v for v in run.violations if 'prism' in v[0]] else 'unsat',
                            'solver': 'concrete execution of the MIR + structural checks', 'solver_s': 0.0})


def check_fan_native(p, profile='debug'):
    """a generator inside a ring of n others (n-sided prism cell) and one generator above it: the last clip removes the fan of n top vertices"""
    import math
    from . import oracle as OR
    n = max(24, int(p.get('n', 40)))
    for nn in (n, 2 * n, 96):
        gens = [[0.5, 0.5, 0.3]]
        for k in range(nn):
            t = 2 * math.pi * (k + 0.37) / nn
            r = 0.25 * (1 + 0.01 * ((k * 7919) % 11) / 11.0)
            gens.append([0.5 + r * math.cos(t), 0.5 + r * math.sin(t), 0.3 + 0.01 * ((k * 104729) % 7) / 7.0])
        gens.append([0.5, 0.5, 0.8])
        sc = {'kind': 'scenario', 'dim': 3, 'periodic': False, 'anchor': [0.0, 0.0, 0.0], 'width': [1.0, 1.0, 1.0], 'gens': gens, 'mask': None}
        for prof in ('debug', 'release'):
            v = OR.violations(sc, prof, only=('C05', 'C02', 'C12'))
            if v:
                return '%d-sided prism cell clipped from above: %s [%s build]' % (nn, v[0][1], prof)
    return None


def cycle_long_history(run, funcs, pid, steps=1500):
    """a SimpleCycle that lives through many clips (init is called once per effective clip of a cell) behaves like a fresh one: a seeded
    sequence of `steps` init / try_extend calls is executed through the MIR and compared, call by call, with an independent successor-map
    model written here"""
    N = 9
    rng = random.Random(run.seed + 99)
    interp = engine.new_interp(funcs, max_visits=4000000)
    st = State()
    st.heap[1] = real_cycle(funcs, N)
    init = engine.find_fn(funcs, r'simple_cycle::<impl at [^>]*>::init$')
    ext = engine.find_fn(funcs, r'simple_cycle::<impl at [^>]*>::try_extend$')
    iname = engine.find_fn(funcs, r'simple_cycle::<impl at [^>]*>::iter$')
    nname = engine.find_fn_where(funcs, r'simple_cycle::<impl at [^>]*>::next$', 'SimpleCycle2Iterator')
    ref = {}          # successor map of the reference model
    start = None
    n_init = 0

    def observe(s):
        cyc = s.heap[1]
        ln = cyc.items[engine.field_index('src/simple_cycle.rs', 'SimpleCycle', 'len')]
        o = interp.exec_fn(s, iname, [Ref(('H', 1))], {})
        s2, itv = o[0]
        s2.heap[9] = itv
        seq = []
        for _ in range(ln):
            o = interp.exec_fn(s2, nname, [Ref(('H', 9))], {})
            s2, v = o[0]
            seq.append(v.items[0])
        return ln, seq, s2

    for step in range(steps):
        if step % 3 == 0 or not ref:
            a, b, c = rng.sample(range(N), 3)
            o = interp.exec_fn(st, init, [Ref(('H', 1)), a, b, c], {})
            st = o[0][0]
            ref = {a: b, b: c, c: a}
            start = a
            n_init += 1
            got_ok = True
        else:
            # a triangle that extends (one new plane + an existing edge), removes a corner, or does not fit at all
            kind = rng.randrange(3)
            cyc = list(ref.items())
            if kind == 0 and len(ref) < N - 1:
                k, j = rng.choice(cyc)                      # edge k -> j
                new = rng.choice([x for x in range(N) if x not in ref])
                tri = [new, j, k]
            elif kind == 1 and len(ref) > 3:
                k, j = rng.choice(cyc)
                i = ref[j]
                tri = [i, j, k]
            else:
                tri = rng.sample(range(N), 3)
            r = rng.randrange(3)
            tri = tri[r:] + tri[:r]
            o = interp.exec_fn(st, ext, [Ref(('H', 1))] + tri, {})
            st, res = o[0]
            # reference semantics (documented in simple_cycle.rs)
            want_ok = False
            for i_ in range(3):
                x, y, z = tri[i_], tri[(i_ + 1) % 3], tri[(i_ + 2) % 3]
                if x not in ref and y in ref and z in ref and ref[z] == y:
                    ref[z] = x
                    ref[x] = y
                    want_ok = True
                    break
                if x in ref and y in ref and z in ref and ref[z] == y and ref[y] == x:
                    ref[z] = x
                    del ref[y]
                    if start == y:
                        start = x
                    want_ok = True
                    break
            if (res.name == 'Ok') != want_ok:
                run.suspect.append('%s SimpleCycle after %d calls (%d of them init): try_extend%r returns %s, the reference cycle %s it' % (
                    pid, step, n_init, tuple(tri), res.name, 'accepts' if want_ok else 'rejects'))
                break
        ln, seq, st = observe(st)
        exp = []
        cur = start
        for _ in range(len(ref)):
            exp.append(cur)
            cur = ref[cur]
        if ln != len(ref) or (seq and exp and set(seq) != set(exp)):
            run.suspect.append('%s SimpleCycle after %d calls (%d of them init): cycle is %r, reference %r' % (pid, step, n_init, seq, exp))
            break
    # targeted: a plane that was on the cycle exactly 256 (512) resets ago and has not been touched since must not look as if it were on the
    # current cycle (per-plane generation stamps of 8 bits would wrap around exactly here)
    for period in (256, 512):
        o = interp.exec_fn(st, init, [Ref(('H', 1)), 6, 7, 8], {})
        st = o[0][0]
        for k in range(period - 1):
            a = k % 4
            o = interp.exec_fn(st, init, [Ref(('H', 1)), a, a + 1, a + 2], {})
            st = o[0][0]
        o = interp.exec_fn(st, init, [Ref(('H', 1)), 0, 1, 2], {})
        st = o[0][0]
        n_init += period + 1
        # triangle (6, 1, 0): 6 is new, edge 0 -> 1 is on the cycle: must be accepted and give 0 -> 6 -> 1 -> 2
        o = interp.exec_fn(st, ext, [Ref(('H', 1)), 6, 1, 0], {})
        st, res = o[0]
        ln, seq, st = observe(st)
        if res.name != 'Ok' or ln != 4 or set(seq) != {0, 1, 2, 6}:
            run.suspect.append('%s SimpleCycle after %d resets: a plane that was on the cycle %d resets ago is treated as if it were on the current one '
                               '(try_extend(6,1,0) on the fresh cycle 0->1->2 returns %s, cycle %r)' % (pid, n_init, period, res.name, seq))
            break
    run.add_functions(interp, funcs)
    mine = [s for s in run.suspect if 'SimpleCycle after' in s]
    run.obligations.append({'name': '%s SimpleCycle long history: %d init / try_extend calls (%d inits) on one cycle executed through the MIR agree call by call with an independent successor-map model'
                            % (pid, steps, n_init), 'expect': 'unsat', 'verdict': 'sat' if mine else 'unsat', 'solver': 'concrete execution of the MIR + reference model', 'solver_s': 0.0})
    if mine:
        pl = {'kind': 'many_clips'}
        bad = check_many_clips_native(pl)
        if bad:
            run.violation(mine[0] + '; natively: ' + bad, engine.save_replay(pid, pl))
            run.suspect[:] = [s for s in run.suspect if s not in mine]


def check_many_clips_native(p, profile='debug'):
    """one cell that goes through more than 256 effective clips: a ring of 300 generators seen in angular order, then one from above"""
    import math
    from . import oracle as OR
    # the call sequence of the targeted history, on the real SimpleCycle
    for prof in ('debug', 'release'):
        for period in (256, 512):
            o = engine.native(['cycle_history %d' % period], prof)[0]
            if o[0] != 'ok':
                return 'SimpleCycle panics after %d resets: %s [%s build]' % (period + 1, ' '.join(o[1:10]), prof)
            if o[1] != 'Ok' or o[2] != '4' or set(o[3:]) != {'0', '1', '2', '6'}:
                return ('one SimpleCycle over 9 planes: init(6,7,8), %d resets over planes 0..5, init(0,1,2); then try_extend(6,1,0) gives %s with cycle %s - a fresh cycle '
                        'gives Ok and 0 -> 6 -> 1 -> 2 [%s build]' % (period - 1, o[1], ' '.join(o[3:]), prof))
    for nn in (300, 520):
        gens = [[0.5, 0.5, 0.3]]
        for k in range(nn):
            t = 2 * math.pi * (k + 0.37) / nn
            r = 0.25 * (1 + 0.02 * k / nn)                  # slowly growing radius: the ring is visited in angular order
            gens.append([0.5 + r * math.cos(t), 0.5 + r * math.sin(t), 0.3 + 0.001 * ((k * 104729) % 7) / 7.0])
        gens.append([0.5, 0.5, 0.85])
        sc = {'kind': 'scenario', 'dim': 3, 'periodic': False, 'anchor': [0.0, 0.0, 0.0], 'width': [1.0, 1.0, 1.0], 'gens': gens, 'mask': [True] + [False] * nn + [True]}
        for prof in ('debug', 'release'):
            v = OR.violations(sc, prof, only=('C05', 'C12', 'C07'))
            if v:
                return 'cell inside a ring of %d generators (one clip each) then clipped from above: %s [%s build]' % (nn, v[0][1], prof)
    return None


def check_clip_tie_native(p, profile='debug'):
    """unit cube cell of g = (0.75, 0.25, 0.5) clipped by the bisector towards q = (0.25, 0.75 - 2e-15, 0.5): the cube corners (0,0,0) and (0,0,1)
    lie within the float error band of the plane and are (exactly) strictly closer to q: they must be removed whatever the storage order"""
    out = []
    for rot in range(0, 8):
        line = 'clip_init_cell 0 0 0 1 1 1 0.75 0.25 0.5 0.25 0.749999999999998 0.5 %d' % rot
        o = engine.native([line], profile)[0]
        if o[0] != 'ok':
            return 'clip panics for storage rotation %d: %s' % (rot, ' '.join(o[1:10]))
        kept = set()
        toks = o[1:]
        nv = int(toks[0])
        for k in range(nv):
            dual = tuple(int(t) for t in toks[1 + 6 * k: 1 + 6 * k + 3])
            if 6 not in dual:
                kept.add(cube_loc(dual))
        out.append(kept)
        for corner in ((0, 0, 0), (0, 0, 1)):
            if corner in kept:
                return 'cube corner %r is strictly closer to the neighbour (by 2e-15, inside the float error band) but is kept when the vertex array is rotated by %d' % (corner, rot)
    if any(k != out[0] for k in out):
        return 'clipping result depends on the storage order of the vertices'
    return None


def replay(d):
    if d['kind'] in ('fan_boundary', 'many_clips'):
        bad = check_fan_native(d) if d['kind'] == 'fan_boundary' else check_many_clips_native(d)
        print(bad)
        return 1 if bad else 0
    if d['kind'] == 'clip_tie':
        bad = check_clip_tie_native(d)
        print(bad)
        return 1 if bad else 0
    raise Inconclusive('unknown replay kind')
