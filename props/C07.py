"""C07 - partial construction equals the full tessellation restricted to the mask (mechanisms)."""
import json

from mirsym import engine
from . import C03, buildrules as BR, staterules as SR

LEVEL = 'other'
EXPLANATION = ('The mask can influence a tessellation only through (1) the guard of the per-cell build closures and (2) the face rule. Both are '
               'taken from the MIR and decided by z3 for every mask (an uninterpreted array) and symbolic labels: the guard is exactly '
               '"mask absent or mask[idx]"; on the unselected path the cell is zero volume/centroid with its own index and its face vector is '
               'untouched; on the selected path ConvexCell::build receives arguments in which the mask does not occur (so volume, centroid, '
               'generator position and safety radius cannot depend on it); the face rule yields every selected-unselected face exactly once '
               'with the selected cell on the left and none between unselected cells; build_partial forwards the caller\'s mask unchanged. '
               'The r-tree driven construction of each ConvexCell itself is not encoded.')


def check(run):
    funcs, info = engine.load_mir('ibig')
    run.mir_info.append(info)
    run.guard(C03.pair_obligations, funcs, 'C07')
    run.guard(BR.check_direct_build_closure, funcs, 'C07')
    run.guard(BR.check_integrator_closures, funcs, 'C07')
    run.guard(BR.check_build_partial_passes_mask, funcs, 'C07')
    run.guard(BR.check_mask_flow, funcs, 'C07')
    run.guard(SR.all_transitions, funcs, 'C07')       # build(mask) -> with_faces() keeps the mask and the cells
    run.guard(BR.check_face_loops, funcs, 'C07')      # the same rule in the symmetric face integrals (anchor convex_cell.rs:646-657)
    run.assume('the construction of one ConvexCell (r-tree search + clipping) is a function of the arguments of ConvexCell::build: not encoded')
    return run.finish(LEVEL, EXPLANATION, trusted=['rustc -Zunpretty=mir', 'z3 5.1.0 / 4.8.12, cvc5 1.0.3', 'std Option/Vec/iterator models of mirsym'])


def replay(path):
    d = json.load(open(path))
    if d['kind'] == 'face_rule_pair':
        return C03.replay(path)
    if d['kind'] in SR.NATIVE:
        return SR.replay(d)
    return BR.replay(d)
