"""Driver: ./check <ID> [--tier quick|thorough] [--replay path]"""
import argparse
import importlib
import os
import sys
import traceback

from mirsym import engine
from mirsym.interp import Unsupported


def main():
    ap = argparse.ArgumentParser()
    ap.add_argument('pid')
    ap.add_argument('--tier', default=os.environ.get('VERIF_TIER', 'quick'), choices=['quick', 'thorough'])
    ap.add_argument('--replay', default=None)
    a = ap.parse_args()
    seed = int(os.environ.get('VERIF_SEED', '0') or 0)
    try:
        mod = importlib.import_module('props.%s' % a.pid)
    except ModuleNotFoundError:
        print('no check for %s' % a.pid)
        sys.exit(3)
    except Exception:           # a broken check module is a machinery error (exit 3), never exit 1
        traceback.print_exc()
        print('INCONCLUSIVE: check module for %s failed to load' % a.pid)
        sys.exit(3)
    if a.replay:
        try:
            import json
            d = json.load(open(a.replay))
            if isinstance(d, dict) and d.get('kind') == 'scenario':
                from . import oracle
                rc = oracle.replay(d)
            else:
                rc = mod.replay(a.replay)
        except Exception:
            traceback.print_exc()
            rc = 3
        sys.exit(rc)
    run = engine.Run(a.pid, a.tier, seed)
    try:
        rc = mod.check(run)
    except Exception as e:      # anything unexpected is inconclusive (exit 3), never a pass and never a VIOLATION
        run.inconclusive.append('%s: %s' % (type(e).__name__, e))
        traceback.print_exc()
        rc = run.finish(getattr(mod, 'LEVEL', 'other'), getattr(mod, 'EXPLANATION', 'aborted: ' + str(e)))
        if rc == 0:
            rc = 3
    sys.exit(rc)


if __name__ == '__main__':
    main()
