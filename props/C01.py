"""C01 - every cell is the nearest-generator region of its generator (bounded: one clip of the initial box cell, end to end)."""
import json

from mirsym import engine
from . import cellrules as CL, geomrules as GR, nnrules

LEVEL = 'other'
EXPLANATION = ('Bounded end-to-end claim decided from the MIR: the real cuboid + ConvexCell::init build the initial cell of a concrete box, the real '
               'HalfSpace::new takes a SYMBOLIC normal and point (6 real unknowns), the real clip_by_plane (compute_boundary, SimpleCycle, '
               'Vertex::from_dual, intersect_planes) clips it and the real compute_cell_integral::<VolumeIntegral> (tetrahedral decomposition with its '
               'projections, signed_volume_tet) integrates it. On every feasible path (one per set of removed box corners) z3 decides: exactly the '
               'corners with n.x < n.p are removed; the new vertices lie on the new plane, on their two walls and inside the box, one per cut edge; and - '
               'as a rational-function identity per sign pattern of the normal - the computed volume equals the closed-form volume of box /\\ half-space '
               '(inclusion-exclusion over the box corners, an independent reference written in the obligation). The bisector of two generators is such a '
               'plane, so for two generators at any positions each cell IS the nearest-generator region with the exact volume. Composition with further '
               'clips is covered only through its mechanisms: candidates are clipped in order of distance until one is farther than the safety radius '
               '(builder-loop obligations), every search result reaches the builder (pipeline obligation). Outside: a second clip on symbolic vertices, '
               'centroids and face areas (sums of square roots), the r-tree order itself, ties.')


def check(run):
    funcs, info = engine.load_mir('ibig')
    run.mir_info.append(info)
    quick = run.tier == 'quick'
    run.guard(CL.single_clip, funcs, 'C01', (0,) if quick else (0, 1), 7, True, not quick, (0, 1, 2, 6, 7))      # 3, 4, 5 removed corners (11-12 vertices, hexagonal sections): identities not attempted within the time budget
    run.guard(GR.build_loop, funcs, 'C01')
    run.guard(GR.build_loop_multi, funcs, 'C01')
    run.guard(nnrules.nn_pipeline, funcs, 'C01')
    run.assume('f64 read as exact reals; all three normal components non-zero; no box corner inside the float error band of the plane (ties: C05 / C10)')
    run.assume('one clip of the initial cell only; the general case is the composition argued in DESIGN.md 7.4, not a query')
    return run.finish(LEVEL, EXPLANATION, trusted=['rustc -Zunpretty=mir', 'z3 5.1.0 / 4.8.12 (portfolio on the identities)', 'glam / std models of mirsym'])


def replay(path):
    d = json.load(open(path))
    if d['kind'] in ('clip_plane', 'clip_plane_family'):
        return CL.replay(d)
    if d['kind'] == 'nn_images':
        return nnrules.replay(d)
    return GR.replay(d)
