"""Obligations about the geometric leaf code taken from the MIR of half_space.rs, boundary.rs, convex_cell.rs
and voronoi_face.rs (shared by C04, C05, C06, C08, C16)."""
import json
from fractions import Fraction

import z3

from mirsym import engine
from mirsym.engine import Inconclusive
from mirsym.interp import Agg, Var, Ref, State, Opaque, UNIT, to_z3, is_z3, Unsupported
from mirsym.models import list_iter, dot, cross, vmap2, vscale
from .common import Call, rvec, none, some, hyps_of, zdot, vsub, vadd, side_obligations, model_floats, all_vars, nice_model
from . import facerule as FR
from .buildrules import rec, pcs

DIMN = {'OneD': 1, 'TwoD': 2, 'ThreeD': 3}
hs_f = lambda v, nm: v.items[engine.field_index('src/voronoi/half_space.rs', 'HalfSpace', nm)]
pl_f = lambda v, nm: v.items[engine.field_index('src/geometry.rs', 'Plane', nm)]


def veq(a, b):
    return z3.And([to_z3(x) == to_z3(y) for x, y in zip(a.items, b.items)])


# ------------------------------------------------------------------------------------------------ HalfSpace

def halfspace_new_and_clip(run, funcs, pid):
    """HalfSpace::new: d = n.p, errb = EPS (1 + |n|.|p|) >= EPS > 0 and errb dominates EPS * sum |n_i p_i|; clip: 0 inside the band,
    else the sign of n.v - d"""
    n, p, v = rvec('n'), rvec('p'), rvec('v')
    st, h = Call(run, funcs, r'half_space::<impl at [^>]*>::new$', [n, p, none(), none()]).single()
    H = hyps_of(st)
    d, errb = hs_f(h, 'd'), hs_f(h, 'errb')
    eps = engine.new_interp(funcs).named_const('HalfSpace::EPSILON')
    absdot = sum(z3.If(a * b >= 0, a * b, -(a * b)) for a, b in zip(n.items, p.items))
    run.prove('%s HalfSpace::new: d = n . p' % pid, H, z3.Not(to_z3(d) == zdot(n, p)), timeout=20)
    vv, m = run.prove('%s HalfSpace::new: error bound >= EPSILON * (1 + sum |n_i p_i|) > 0 (dominates the rounding error scale of n.v - n.p)' % pid, H,
                      z3.Not(z3.And(to_z3(errb) >= z3.RealVal(str(eps)) * (1 + absdot), to_z3(errb) > 0)), timeout=30, on_sat='caller')
    if vv == 'sat':
        m2 = nice_model(run, 'errb', H, z3.Not(to_z3(errb) >= z3.RealVal(str(eps)) * (1 + absdot)), all_vars(n, p)) or m
        vals = model_floats(m2, all_vars(n, p))
        pl = {'kind': 'errb', 'n': [vals[str(x)] for x in n.items], 'p': [vals[str(x)] for x in p.items]}
        bad = check_errb_native(pl)
        if bad:
            run.violation('%s HalfSpace::new: %s' % (pid, bad), engine.save_replay(pid, pl))
        else:
            run.suspect.append('%s HalfSpace::new error bound: counterexample does not reproduce natively' % pid)
    run.prove('%s HalfSpace::new: plane stores n and p, labels stored unchanged' % pid, H,
              z3.Not(z3.And(veq(pl_f(hs_f(h, 'plane'), 'n'), n), veq(pl_f(hs_f(h, 'plane'), 'p'), p))), timeout=20, cross=False)
    # clip on an arbitrary half space (d and errb symbolic, errb > 0)
    dd, ee = z3.Real('d'), z3.Real('errb')
    hsv = FR.half_space(n, p, none(), none(), d=dd, errb=ee)
    c = Call(run, funcs, r'half_space::<impl at [^>]*>::clip$', [hsv, v], by_ref=(0,), pre=[ee > 0])
    raw = zdot(n, v) - dd
    for k, (st2, val) in enumerate(c.outs):
        H2 = hyps_of(st2)
        absraw = z3.If(raw >= 0, raw, -raw)
        spec = z3.If(absraw < ee, z3.RealVal(0), z3.If(raw >= 0, z3.RealVal(1), z3.RealVal(-1)))
        run.prove('%s HalfSpace::clip path %d: 0 inside the error band, else the sign of n.v - d' % (pid, k), H2, z3.Not(to_z3(val) == spec), timeout=20)


def check_errb_native(p, profile='debug'):
    o = engine.native(['halfspace_new %s %s' % (' '.join(engine.f2s(x) for x in p['n']), ' '.join(engine.f2s(x) for x in p['p']))], profile)[0]
    if o[0] != 'ok':
        return 'HalfSpace::new panicked: ' + ' '.join(o[1:6])
    errb = float(o[2])
    want = 1e-13 * (1 + sum(abs(a * b) for a, b in zip(p['n'], p['p'])))
    if errb < want * (1 - 1e-9):
        return 'error bound %.3e < EPSILON*(1 + sum|n_i p_i|) = %.3e for n=%r p=%r' % (errb, want, p['n'], p['p'])
    return None


def intersect_guard(run, funcs, pid):
    """the panic site of intersect_planes ('Degenerate 3-plane intersection') is reached only for linearly dependent normals (det = 0 exactly):
    nearly parallel bisectors (close generators, thin cells) are valid inputs"""
    mk_plane = lambda n, p: engine.make_struct('src/geometry.rs', 'Plane', n=n, p=p)
    n = [rvec('ign%d' % k) for k in range(3)]
    p = [rvec('igp%d' % k) for k in range(3)]
    c = Call(run, funcs, r'^intersect_planes$', [mk_plane(n[k], p[k]) for k in range(3)], by_ref=(0, 1, 2))
    det = to_z3(dot(n[2], cross(n[0], n[1])))
    if not c.panics:
        run.notes.append('%s intersect_planes has no panic path' % pid)
    for pc, msg, pst in c.panics:
        vv, m = run.prove('%s intersect_planes panics only if the three normals are linearly dependent (det = 0)' % pid, list(pc), det != 0, timeout=30, on_sat='caller')
        if vv == 'sat':
            pl = {'kind': 'intersect_guard'}
            bad = check_intersect_guard_native(pl)
            if bad:
                run.violation('%s %s' % (pid, bad), engine.save_replay(pid, pl))
            else:
                run.suspect.append('%s intersect_planes: panic path for det != 0 in the encoding, not reproduced natively' % pid)
    for st, x in c.outs:
        run.prove('%s intersect_planes returns normally only for det != 0' % pid, hyps_of(st), det == 0, timeout=30, cross=False)


def check_intersect_guard_native(p, profile='debug'):
    """three unit normals enclosing tiny angles, and un-normalised normals as project_onto_intersection passes them"""
    cases = []
    for eps in (1e-3, 1e-6, 1e-9, 1e-12):
        # det = eps^2 for n2 = n0 x n1 (|n2| = eps), as in Plane::project_onto_intersection
        cases.append(('1 0 0  0.2 0.3 0.4   1 %r 0  0.2 0.3 0.4   0 0 %r  0.5 0.5 0.5' % (eps, eps), eps * eps))
        cases.append(('1 0 0  0.2 0.3 0.4   0 1 0  0.2 0.3 0.4   %r 0 %r  0.5 0.5 0.5' % (0.5, eps), eps))
    for prof in ('debug', 'release'):
        for line, det in cases:
            o = engine.native(['intersect_planes ' + line], prof)[0]
            if o[0] != 'ok':
                return 'intersect_planes panics (%s) for normals with determinant %g != 0 [%s build]' % (' '.join(o[1:6]), det, prof)
    return None


def right_loc(run, funcs, pid):
    """HalfSpace::right_loc: generator + shift for neighbour planes, mirror image 2 proj - loc for walls"""
    n, p = rvec('n'), rvec('p')
    g = [rvec('g0'), rvec('g1')]
    gens = Agg('array', [engine.make_struct('src/voronoi/generator.rs', 'Generator', loc=g[k], id=k) for k in range(2)])
    sh = rvec('s')
    for right_some, shift_some in ((True, True), (True, False), (False, False)):
        hsv = FR.half_space(n, p, some(1) if right_some else none(), some(sh) if shift_some else none())
        pre = [zdot(n, n) != 0] if not right_some else []
        c = Call(run, funcs, r'half_space::<impl at [^>]*>::right_loc$', [hsv, 0, gens], by_ref=(0, 2), pre=pre)
        st, val = c.single()
        H = pre + hyps_of(st)
        if right_some:
            exp = vadd(g[1], sh) if shift_some else g[1]
            vv, m = run.prove('%s right_loc[right=Some, shift=%s]: neighbour position = generator %s' % (pid, shift_some, '+ shift' if shift_some else ''),
                              H, z3.Not(veq(val, exp)), timeout=20, on_sat='caller')
            if vv == 'sat':
                pl = {'kind': 'right_loc', 'shift': [1.0, 0.0, -2.0]}
                bad = check_right_loc_native(pl)
                if bad:
                    run.violation('%s HalfSpace::right_loc: %s' % (pid, bad), engine.save_replay(pid, pl))
                else:
                    run.suspect.append('%s right_loc: counterexample does not reproduce natively' % pid)
        else:
            # mirror image of generator 0 through the wall: on the other side at the same distance, along n
            mid = vscale('*', vadd(val, g[0]), Fraction(1, 2))
            run.prove('%s right_loc[wall]: midpoint of generator and image lies on the wall' % pid, H, z3.Not(zdot(vsub(mid, p), n) == 0), timeout=20)
            run.prove('%s right_loc[wall]: image - generator is parallel to the wall normal' % pid, H,
                      z3.Not(veq(cross(vsub(val, g[0]), n), Agg('DVec3', [0, 0, 0]))), timeout=20)
            side_obligations(run, '%s right_loc[wall]' % pid, st, pre)


def check_right_loc_native(p, profile='debug'):
    sh = p['shift']
    line = 'right_loc 3 1 0 0 0 0 0 1 1 %s 0 2 0.25 0.5 0.75 0.5 0.25 0.125' % ' '.join(engine.f2s(x) for x in sh)
    o = engine.native([line], profile)[0]
    if o[0] != 'ok':
        return 'panicked'
    got = [float(x) for x in o[1:4]]
    exp = [0.5 + sh[0], 0.25 + sh[1], 0.125 + sh[2]]
    if any(abs(a - b) > 1e-12 for a, b in zip(got, exp)):
        return 'right_loc of a neighbour at (0.5,0.25,0.125) with shift %r is %r, expected generator + shift = %r' % (sh, got, exp)
    return None


# ------------------------------------------------------------------------------------------------ cuboid

def cuboid(run, funcs, pid):
    """SimulationBoundary::cuboid: six inward unit wall normals; walls at anchor / anchor+width, tripled (anchor - w, anchor + 2w) exactly on the
    active axes when periodic; integer-grid domain strictly contains [A - W, A + 2W] of the (tripled) box"""
    anchor, width = rvec('anchor'), rvec('width')
    sb = lambda v, nm: v.items[engine.field_index('src/voronoi/boundary.rs', 'SimulationBoundary', nm)]
    for dim in FR.DIMS:
        for periodic in (False, True):
            pre = [w > 0 for w in width.items]
            c = Call(run, funcs, r'boundary::<impl at [^>]*>::cuboid$', [anchor, width, periodic, FR.dimv(dim)], pre=pre)
            st, b = c.single()
            H = pre + hyps_of(st)
            planes = sb(b, 'clipping_planes').items
            if len(planes) != 6:
                run.suspect.append('%s cuboid: %d planes' % (pid, len(planes)))
                continue
            conds = []
            tag = '%s cuboid[%s, periodic=%s]' % (pid, dim, periodic)
            for ax in range(3):
                trip = periodic and ax < DIMN[dim]
                lo = anchor.items[ax] - (width.items[ax] if trip else 0)
                hi = anchor.items[ax] + (2 * width.items[ax] if trip else width.items[ax])
                pl_lo, pl_hi = planes[2 * ax], planes[2 * ax + 1]
                for plh, pos, sgn in ((pl_lo, lo, 1), (pl_hi, hi, -1)):
                    nvec = pl_f(hs_f(plh, 'plane'), 'n')
                    pvec = pl_f(hs_f(plh, 'plane'), 'p')
                    for k in range(3):
                        conds.append(to_z3(nvec.items[k]) == (sgn if k == ax else 0))
                    conds.append(to_z3(pvec.items[ax]) == pos)
                    if hs_f(plh, 'right_idx').name != 'None' or hs_f(plh, 'shift').name != 'None':
                        run.suspect.append('%s: wall plane carries a neighbour label' % tag)
            vv, m = run.prove('%s: inward unit normals +-e_k; walls at anchor/anchor+width, tripled exactly on the active periodic axes' % tag, H,
                              z3.Not(z3.And(conds)), timeout=30, on_sat='caller')
            if vv == 'sat':
                pl = {'kind': 'cuboid', 'dim': dim, 'periodic': periodic, 'anchor': [0.5, 3.0, 7.0], 'width': [2.0, 4.0, 8.0]}
                bad = check_cuboid_native(pl)
                if bad:
                    run.violation('%s: %s' % (tag, bad), engine.save_replay(pid, pl))
                else:
                    run.suspect.append('%s: counterexample does not reproduce natively' % tag)
            # grid domain (reals): every position in [A - W, A + 2W] (A, W of the possibly tripled box) maps strictly inside (1, 2)
            ga, giw = sb(b, 'anchor'), sb(b, 'inverse_width')
            x = z3.Real('x')
            for ax in range(3):
                trip = periodic and ax < DIMN[dim]
                A = anchor.items[ax] - (width.items[ax] if trip else 0)
                W = width.items[ax] * (3 if trip else 1)
                mapped = 1 + (x - to_z3(ga.items[ax])) * to_z3(giw.items[ax])
                vv, m = run.prove('%s axis %d: grid map of [A-W, A+2W] lies inside [1,2) (real arithmetic)' % (tag, ax),
                                  H + [x >= A - W, x <= A + 2 * W], z3.Not(z3.And(mapped >= 1, mapped < 2)), timeout=30, cross=False, on_sat='caller')
                if vv == 'sat':
                    pl = {'kind': 'gridmap', 'dim': dim, 'periodic': periodic, 'axis': ax,
                          'anchor': [float(engine.model_value(m, a_)) for a_ in anchor.items], 'width': [float(engine.model_value(m, w_)) for w_ in width.items],
                          'x': float(engine.model_value(m, x))}
                    bad = check_gridmap_native(pl)
                    if bad:
                        run.violation('%s: %s' % (tag, bad), engine.save_replay(pid, pl))
                    else:
                        run.suspect.append('%s axis %d: grid-map counterexample %r does not reproduce natively' % (tag, ax, pl))
                # resolution: the (tripled) box spans at least 1/64 of the grid range along every axis, whatever the other axes look like
                # (anisotropic boxes, unit dummy axes of 1D / 2D): the 52-bit grid must resolve every axis of the box; the pinned code uses 1/4,
                # the generous constant leaves room for any reasonable padding
                vv, m = run.prove('%s axis %d: the box spans at least 1/64 of the integer-grid range (resolution independent of the other axes)' % (tag, ax),
                                  H, z3.Not(W * to_z3(giw.items[ax]) * 64 >= 1), timeout=30, cross=False, on_sat='caller')
                if vv == 'sat':
                    pl = {'kind': 'grid_resolution', 'dim': dim, 'periodic': periodic, 'axis': ax}
                    bad = check_grid_resolution_native(pl)
                    if bad:
                        run.violation('%s: %s' % (tag, bad), engine.save_replay(pid, pl))
                    else:
                        run.suspect.append('%s axis %d: grid resolution counterexample does not reproduce natively' % (tag, ax))
            side_obligations(run, tag, st, pre)


def check_grid_resolution_native(p, profile='debug'):
    """grid coordinates of the two ends of the box along each active axis, for anisotropic boxes (as build_internal hands them to cuboid:
    unused axes normalised to anchor -0.5, width 1)"""
    d = DIMN[p['dim']]
    per = 1 if p['periodic'] else 0
    for width in ((1e-3, 7.0, 0.25), (3.0, 1e-4, 1e2), (1e-6, 1e-6, 1e-6), (5.0, 5.0, 1e-5)):
        a = [0.25, -3.0, 10.0]
        w = list(width)
        for k in range(3):
            if k >= d:
                a[k], w[k] = -0.5, 1.0
        for prof in ('debug', 'release'):
            lines = []
            for end in (0.0, 1.0):
                loc = [a[k] + end * w[k] * (1 - 1e-12 if end else 1) for k in range(3)]
                lines.append('iloc %d %d %s %s %s' % (d, per, ' '.join(engine.f2s(v) for v in a), ' '.join(engine.f2s(v) for v in w), ' '.join(engine.f2s(v) for v in loc)))
            o = engine.native(lines, prof)
            if o[0][0] != 'ok' or o[1][0] != 'ok':
                return 'iloc panics for a corner of the box'
            for k in range(d):
                span = int(o[1][1 + k]) - int(o[0][1 + k])
                if span < 2 ** 52 / (3 * 64.5 if per else 64.5):      # periodic: the tripled box is measured, the box itself is a third of it
                    return ('box anchor %r width %r (%s, %s): along axis %d the two ends of the box are only %d grid units apart (2^52 / %.3g): the integer grid does not '
                            'resolve the box along that axis [%s build]' % (a, w, p['dim'], 'periodic' if per else 'reflective', k, span, 2 ** 52 / max(span, 1), prof))
    return None


def check_gridmap_native(p, profile='debug'):
    d = DIMN[p['dim']]
    loc = [p['anchor'][k] + 0.5 * p['width'][k] for k in range(3)]
    loc[p['axis']] = p['x']
    for prof in ('debug', 'release'):
        line = 'iloc %d %d %s %s %s' % (d, 1 if p['periodic'] else 0, ' '.join(engine.f2s(v) for v in p['anchor']), ' '.join(engine.f2s(v) for v in p['width']),
                                        ' '.join(engine.f2s(v) for v in loc))
        o = engine.native([line], prof)[0]
        if o[0] != 'ok':
            return 'iloc panics for a position the algorithm can query (axis %d, x = %r; %s build): %s' % (p['axis'], p['x'], prof, ' '.join(o[1:10]))
        r = float(o[4 + p['axis']])
        if not (1.0 <= r < 2.0):
            return 'position x = %r on axis %d of a %s box (anchor %r, width %r) is rescaled to %r, outside [1,2): its grid coordinate is garbage (%s build)' % (
                p['x'], p['axis'], 'periodic' if p['periodic'] else 'reflective', p['anchor'], p['width'], r, prof)
    return None


def check_cuboid_native(p, profile='debug'):
    d = DIMN[p['dim']]
    line = 'cuboid_planes %d %d %s %s' % (d, 1 if p['periodic'] else 0, ' '.join(engine.f2s(x) for x in p['anchor']), ' '.join(engine.f2s(x) for x in p['width']))
    o = engine.native([line], profile)[0]
    if o[0] != 'ok':
        return 'panicked'
    v = [float(x) for x in o[1:]]
    for ax in range(3):
        trip = p['periodic'] and ax < d
        lo = p['anchor'][ax] - (p['width'][ax] if trip else 0)
        hi = p['anchor'][ax] + (2 * p['width'][ax] if trip else p['width'][ax])
        for which, pos, sgn in ((2 * ax, lo, 1.0), (2 * ax + 1, hi, -1.0)):
            n = v[which * 6: which * 6 + 3]
            pp = v[which * 6 + 3: which * 6 + 6]
            if n[ax] != sgn or pp[ax] != pos:
                return 'wall %d of a %s %s box (anchor %r, width %r): normal %r at %r, expected normal %g e_%d at coordinate %r' % (
                    which, 'periodic' if p['periodic'] else 'reflective', p['dim'], p['anchor'], p['width'], n, pp[ax], sgn, ax, pos)
    return None


# ------------------------------------------------------------------------------------------------ Vertex::from_dual

def from_dual(run, funcs, pid):
    """radius2 = |gen - P_d(loc)|^2 where P_d zeroes exactly the inactive coordinates of loc = intersection of the three planes"""
    gen = rvec('gen')
    loc = rvec('vloc')
    planes = Agg('array', [FR.half_space(rvec('hn%d' % k), rvec('hp%d' % k), none(), none()) for k in range(3)])
    vx = lambda v, nm: v.items[engine.field_index('src/voronoi/convex_cell.rs', 'Vertex', nm)]
    for dim in FR.DIMS:
        ov = {'intersect_planes': rec('intersect_planes', loc)}
        c = Call(run, funcs, r'convex_cell::<impl at [^>]*>::from_dual$', [0, 1, 2, planes, gen, FR.dimv(dim)], by_ref=(3,), overrides=ov)
        st, v = c.single()
        H = hyps_of(st)
        proj = Agg('DVec3', [loc.items[k] if k < DIMN[dim] else 0 for k in range(3)])
        dd = vsub(gen, proj)
        conds = [to_z3(vx(v, 'radius2')) == zdot(dd, dd), veq(vx(v, 'loc'), loc)]
        dual = vx(v, 'dual')
        conds += [z3.BoolVal(list(dual.items) == [0, 1, 2])]
        ev = [e for e in st.events if e[0] == 'intersect_planes']
        ok = len(ev) == 1 and all(isinstance(r, Ref) and r.path[-2:] == (k, engine.field_index('src/voronoi/half_space.rs', 'HalfSpace', 'plane'))
                                  for k, r in enumerate(ev[0][1]))
        if not ok:
            run.suspect.append('%s from_dual[%s]: the vertex is not the intersection of the planes of its dual (i, j, k)' % (pid, dim))
        vv, m = run.prove('%s Vertex::from_dual[%s]: radius^2 measured in the active subspace, loc = intersection of its three planes' % (pid, dim),
                          H, z3.Not(z3.And(conds)), timeout=20, on_sat='caller')
        if vv == 'sat':
            run.suspect.append('%s Vertex::from_dual[%s]: radius2 is not the active-subspace distance (model %s)' % (pid, dim, str(m)[:200]))


def update_safety_radius(run, funcs, pid, nverts=3):
    """safety radius = 2 sqrt(max radius2): at least twice the distance to every vertex, attained by one of them"""
    r2 = [z3.Real('r2_%d' % k) for k in range(nverts)]
    verts = [engine.make_struct('src/voronoi/convex_cell.rs', 'Vertex', loc=rvec('vl%d' % k), dual=Agg('array', (0, 1, 2)), radius2=r2[k]) for k in range(nverts)]
    cell = engine.make_struct('src/voronoi/convex_cell.rs', 'ConvexCell', idx=0, loc=rvec('loc'), clipping_planes=Agg('Vec', ()),
                              vertices=Agg('Vec', verts), faces=none(), face_vertex_connections=none(), boundary=Opaque('SimpleCycle'),
                              safety_radius=z3.Real('sr_old'), dimensionality=FR.dimv('ThreeD'), _phantom=Agg('zst:PhantomData', ()))
    pre = [x >= 0 for x in r2]
    c = Call(run, funcs, r'convex_cell::<impl at [^>]*>::update_safety_radius$', [cell], by_ref=(0,), pre=pre)
    sridx = engine.field_index('src/voronoi/convex_cell.rs', 'ConvexCell', 'safety_radius')
    cov = []
    for k, (st, _) in enumerate(c.outs):
        sr = to_z3(c.arg_after(st, 0).items[sridx])
        H = pre + hyps_of(st)
        cov.append(z3.And(pcs(st) + [z3.BoolVal(True)]))
        # the property: at least twice the distance to the farthest vertex (a larger, still safe radius would also satisfy it)
        goal = z3.And([sr >= 0] + [sr * sr >= 4 * x for x in r2])
        run.prove('%s update_safety_radius path %d: sr >= 0 and (sr/2)^2 >= every vertex radius^2' % (pid, k), H, z3.Not(goal), timeout=30,
                  cross=(k == 0))
        side_obligations(run, '%s update_safety_radius' % pid, st, pre)
    run.prove('%s update_safety_radius: paths cover every non-negative radius2 tuple' % pid, pre, z3.Not(z3.Or(cov)), timeout=20, cross=False)
    for pc, msg, pst in c.panics:
        run.prove('%s update_safety_radius: no panic for real radii (%s)' % (pid, msg[:40]), pre + list(pc), True, timeout=10, cross=False)
    run.bound('update_safety_radius: %d vertices with arbitrary non-negative real radius2 (NaN outside the real-arithmetic reading)' % nverts)


# ------------------------------------------------------------------------------------------------ ConvexCell::build loop

def cell_value(idx, loc, sr, dim='ThreeD'):
    return engine.make_struct('src/voronoi/convex_cell.rs', 'ConvexCell', idx=idx, loc=loc, clipping_planes=Agg('Vec', ()),
                              vertices=Agg('Vec', ()), faces=none(), face_vertex_connections=none(), boundary=Opaque('SimpleCycle'),
                              safety_radius=sr, dimensionality=FR.dimv(dim), _phantom=Agg('zst:PhantomData', ()))


def build_loop(run, funcs, pid):
    """ConvexCell::build: one iteration for an arbitrary second candidate (possibly an image of the cell's own generator)"""
    loc = rvec('loc')
    g = [loc, rvec('g1')]
    gens = Agg('array', [engine.make_struct('src/voronoi/generator.rs', 'Generator', loc=g[k], id=k) for k in range(2)])
    sr0 = z3.Real('sr0')
    sh = rvec('shift')
    cc = lambda v, nm: v.items[engine.field_index('src/voronoi/convex_cell.rs', 'ConvexCell', nm)]
    for first in (0, 1):
        for nidx in (0, 1):
            for shift_some in (False, True):
                if nidx == 0 and not shift_some:
                    continue        # the generator itself without shift appears only as the first entry
                def clip(i, st, a, c):
                    st.events.append(('clip', a[1]))
                    cell = i.deref_read(st, a[0])
                    sridx = engine.field_index('src/voronoi/convex_cell.rs', 'ConvexCell', 'safety_radius')
                    items = list(cell.items)
                    items[sridx] = z3.Real('sr_after_clip')
                    i.deref_write(st, a[0], Agg(cell.tag, items))
                    return UNIT
                ov = {'convex_cell::ConvexCell::init': lambda i, st, a, c: cell_value(a[1], a[0], sr0),
                      'convex_cell::ConvexCell::clip_by_plane': clip}
                it = list_iter([Agg('tuple', (first, none())), Agg('tuple', (nidx, some(sh) if shift_some else none()))])
                pre = [sr0 >= 0]
                c = Call(run, funcs, r'convex_cell::<impl at [^>]*>::build$', [loc, 0, gens, it, Opaque('simvol')], by_ref=(2, 4), overrides=ov, pre=pre)
                tag = '%s build loop[first=%d, candidate=%d, shift=%s]' % (pid, first, nidx, shift_some)
                if first != 0:
                    if c.outs or not c.panics:
                        run.suspect.append('%s: a first candidate that is not the generator itself must be rejected' % tag)
                    continue
                q = vadd(g[nidx], sh) if shift_some else g[nidx]
                dx = vsub(loc, q)
                d2 = zdot(dx, dx)
                for pc, msg, pst in c.panics:
                    # the only legitimate panic: coincident points
                    run.prove('%s: panics only for a candidate at distance 0 (%s)' % (tag, msg[:30]), pre + list(pc) + list(pst.defs), z3.Not(d2 == 0), timeout=20, cross=False)
                for k, (st, cell) in enumerate(c.outs):
                    H = pre + hyps_of(st)
                    clips = [e[1] for e in st.events if e[0] == 'clip']
                    if st.sqrts:
                        dist, X = st.sqrts[0]
                        run.prove('%s path %d: the candidate distance is |loc - (generator + shift)|' % (tag, k), H, z3.Not(X == d2), timeout=20, cross=False)
                    else:
                        dist = None
                    if not clips:
                        skip_ok = z3.And(sr0 < dist, to_z3(cc(cell, 'safety_radius')) == sr0) if dist is not None else z3.BoolVal(False)
                        vv, m = run.prove('%s path %d: a candidate is skipped only if it is farther than the safety radius (and then the cell is returned unchanged)' % (tag, k),
                                          H, z3.Not(skip_ok), timeout=20, on_sat='caller')
                        if vv == 'sat':
                            pl = {'kind': 'own_image'}
                            bad = check_own_image_native(pl)
                            if bad:
                                run.violation('%s: %s' % (tag, bad), engine.save_replay(pid, pl))
                            else:
                                run.suspect.append('%s: skipped candidate within the safety radius (model %s) - native single-generator periodic build shows no difference' % (tag, str(m)[:150]))
                    elif dist is None:
                        run.suspect.append('%s: clipped without computing the distance' % tag)
                    else:
                        hsv = clips[0]
                        nvec, pvec = pl_f(hs_f(hsv, 'plane'), 'n'), pl_f(hs_f(hsv, 'plane'), 'p')
                        conds = [z3.Not(sr0 < dist), to_z3(cc(cell, 'safety_radius')) == z3.Real('sr_after_clip'), z3.BoolVal(len(clips) == 1)]
                        conds += [to_z3(a) * dist == to_z3(b) for a, b in zip(nvec.items, dx.items)]
                        conds += [to_z3(a) * 2 == to_z3(b) for a, b in zip(pvec.items, vadd(loc, q).items)]
                        r_, s_ = hs_f(hsv, 'right_idx'), hs_f(hsv, 'shift')
                        conds.append(z3.BoolVal(r_.name == 'Some' and r_.items[0] == nidx and s_.name == ('Some' if shift_some else 'None')))
                        if shift_some:
                            conds.append(veq(s_.items[0], sh))
                        run.prove('%s path %d: clipped by the bisector: unit normal from the neighbour towards the generator, through the midpoint, labelled (index, shift)' % (tag, k),
                                  H, z3.Not(z3.And(conds)), timeout=30, cross=False)
                    side_obligations(run, tag, st, pre + [d2 != 0])
    run.bound('build loop: candidate list [self, one more candidate] with the second candidate an arbitrary generator or periodic image (symbolic positions/shift/safety radius)')


def build_loop_multi(run, funcs, pid, ncand=3):
    """ConvexCell::build over a candidate list [self, c1 .. c_ncand] (distinct generators, 1D / 2D / 3D): every candidate is examined in
    order; the loop stops before candidate k only because candidate k is farther than the safety radius reached after the clips so far;
    every examined candidate within that radius is clipped.  `clip_by_plane` is a recorder that replaces the safety radius by a fresh
    symbol, so the claim holds for every way the radius evolves."""
    from . import oracle as OR
    loc = rvec('loc')
    g = [loc] + [rvec('g%d' % k) for k in range(1, ncand + 1)]
    gens = Agg('array', [engine.make_struct('src/voronoi/generator.rs', 'Generator', loc=g[k], id=k) for k in range(ncand + 1)])
    sr0 = z3.Real('sr0')
    cc = lambda v, nm: v.items[engine.field_index('src/voronoi/convex_cell.rs', 'ConvexCell', nm)]
    for dim in FR.DIMS:
        def clip(i, st, a, c):
            k = len([e for e in st.events if e[0] == 'clip'])
            st.events.append(('clip', a[1]))
            cell = i.deref_read(st, a[0])
            sridx = engine.field_index('src/voronoi/convex_cell.rs', 'ConvexCell', 'safety_radius')
            items = list(cell.items)
            items[sridx] = z3.Real('sr_after_clip_%d' % (k + 1))
            i.deref_write(st, a[0], Agg(cell.tag, items))
            return UNIT
        ov = {'convex_cell::ConvexCell::init': lambda i, st, a, c: cell_value(a[1], a[0], sr0, dim),
              'convex_cell::ConvexCell::clip_by_plane': clip}
        it = list_iter([Agg('tuple', (k, none())) for k in range(ncand + 1)])
        simvol = engine.make_struct('src/voronoi/boundary.rs', 'SimulationBoundary', anchor=Opaque('anchor'), inverse_width=Opaque('iw'),
                                    dimensionality=FR.dimv(dim), clipping_planes=Opaque('planes'))
        pre = [sr0 >= 0]
        c = Call(run, funcs, r'convex_cell::<impl at [^>]*>::build$', [loc, 0, gens, it, simvol], by_ref=(2, 4), overrides=ov, pre=pre)
        tag = '%s build loop[%s, %d candidates]' % (pid, dim, ncand)
        seen_full = False
        for k, (st, cell) in enumerate(c.outs):
            H = pre + hyps_of(st)
            clips = [e[1] for e in st.events if e[0] == 'clip']
            nclip = len(clips)
            dists = [d for d, X in st.sqrts]
            # candidates examined = distances computed; labels of the clipped planes must be 1..nclip in order
            labels = [hs_f(h, 'right_idx') for h in clips]
            in_order = all(r.name == 'Some' and r.items[0] == j + 1 for j, r in enumerate(labels))
            if nclip == ncand:
                seen_full = True
                ok = z3.BoolVal(in_order and len(dists) == ncand)
            else:
                # stopped before candidate nclip+1: its distance was computed and exceeds the current safety radius
                if len(dists) != nclip + 1:
                    ok = z3.BoolVal(False)
                else:
                    sr_now = sr0 if nclip == 0 else z3.Real('sr_after_clip_%d' % nclip)
                    ok = z3.And(z3.BoolVal(in_order), sr_now < dists[nclip])
            vv, m = run.prove('%s path %d (%d clipped): candidates are clipped in order; the loop ends early only at a candidate farther than the current safety radius'
                              % (tag, k, nclip), H, z3.Not(ok), timeout=20, cross=False, on_sat='caller')
            if vv == 'sat':
                d = DIMN[dim]
                what = '%s: the builder stops after %d of %d candidates although the next one is not farther than the safety radius' % (tag, nclip, ncand)
                extra = [OR.scenario(d, per, n, None, seed=sd) for per in (False, True) for n in (3, 4, 5) for sd in (0, 1)]
                extra = OR.clustered_scenarios(d, False) + OR.clustered_scenarios(d, True) + extra
                if not OR.confirm_family(pid, run, what, d, False, None, (0, 1), extra=extra):
                    run.suspect.append(what + ' (no public-API scenario shows a difference)')
        if not seen_full:
            run.suspect.append('%s: no path clips all %d candidates' % (tag, ncand))
    run.bound('build loop, several candidates: list [self, c1..c%d] of distinct generators without shift, symbolic positions; safety radius after each clip is a fresh symbol' % ncand)


def check_own_image_native(p, profile='debug'):
    """a single generator in a periodic box neighbours its own images: the cell must be the box"""
    for dim, vol in ((3, 2.0 * 1.0 * 0.5), (2, 2.0 * 1.0), (1, 2.0)):
        line = 'build %d 1 0 0 0 2 1 0.5 0 1 0.7 0.4 0.2 0' % dim
        o = engine.native([line], profile)[0]
        if o[0] != 'ok':
            return 'native build panicked: ' + ' '.join(o[1:8])
        toks = ' '.join(o[1:]).split('||')[0].split('|')[1].split()
        v = float(toks[1])
        if abs(v - vol) > 1e-9 * vol:
            return 'single generator, periodic %dD box 2 x 1 x 0.5: cell measure %.12g, expected the box measure %g (the cell is not clipped by its own periodic images)' % (dim, v, vol)
    return None


# ------------------------------------------------------------------------------------------------ far-plane lemma (C16.c)

def far_plane_lemma(run, funcs, pid):
    """with the plane built as in ConvexCell::build and the real HalfSpace::new/clip: 2 |v - g|_active <= sr < |g - q|  =>  clip(v) is not -1"""
    for dim in FR.DIMS:
        d = DIMN[dim]
        g, q, v = rvec('g'), rvec('q'), rvec('v')
        sr, dist = z3.Real('sr'), z3.Real('dist')
        pre = []
        for k in range(d, 3):
            pre += [g.items[k] == 0, q.items[k] == 0]       # generators are projected (Generator::new, C08.a)
        dx = vsub(g, q)
        pre += [dist > 0, dist * dist == zdot(dx, dx)]
        n = Agg('DVec3', [x / dist for x in dx.items])
        p = vscale('*', vadd(g, q), Fraction(1, 2))
        st, h = Call(run, funcs, r'half_space::<impl at [^>]*>::new$', [n, p, some(1), none()]).single()
        c = Call(run, funcs, r'half_space::<impl at [^>]*>::clip$', [h, v], by_ref=(0,))
        vd = Agg('DVec3', [v.items[k] if k < d else 0 for k in range(3)])
        dv = vsub(g, vd)
        pre += [sr >= 0, 4 * zdot(dv, dv) <= sr * sr, sr < dist]
        for k, (st2, val) in enumerate(c.outs):
            run.prove('%s far-plane lemma[%s] path %d: a bisector of a generator farther than the safety radius clips no vertex' % (pid, dim, k),
                      pre + hyps_of(st) + hyps_of(st2), to_z3(val) == -1, timeout=60)
        run.witness('%s far-plane lemma[%s]' % (pid, dim), pre)
        # the factor 2 is needed: with factor 1.5 the statement is false (sensitivity witness)
        pre15 = [x for x in pre if not z3.eq(x, 4 * zdot(dv, dv) <= sr * sr)] + [9 * zdot(dv, dv) <= 4 * sr * sr]
        hyp = pre15 + hyps_of(st)
        found = False
        for st2, val in c.outs:
            vv, m = run.prove('%s far-plane lemma[%s]: factor 1.5 instead of 2 is refuted (sensitivity witness)' % (pid, dim), hyp + hyps_of(st2), to_z3(val) == -1,
                              timeout=30, expect='sat', cross=False)
            if vv == 'sat':
                found = True
                break
            run.inconclusive.pop()
        if not found:
            run.inconclusive.append('%s far-plane lemma[%s]: sensitivity witness not found' % (pid, dim))


# ------------------------------------------------------------------------------------------------ faces (C04)

def face_integral(run, funcs, pid):
    """VoronoiFaceIntegral: init records the outward normal (-inward plane normal); collect accumulates area and area*(v0+v1+v2);
    finalize divides by 3*area whenever area > 0 => the centroid is an affine combination of triangle vertices"""
    fi = lambda v, nm: v.items[engine.field_index('src/voronoi/voronoi_face.rs', 'VoronoiFaceIntegral', nm)]
    mk = lambda area, cen, nrm: engine.make_struct('src/voronoi/voronoi_face.rs', 'VoronoiFaceIntegral', area=area, centroid=cen, normal=nrm)
    name_fin = engine.find_fn_where(funcs, r'voronoi_face::<impl at [^>]*>::finalize$', 'VoronoiFaceIntegral')
    area, cen, nrm = z3.Real('area'), rvec('cen'), rvec('nrm')
    c = Call(run, funcs, '^' + __import__('re').escape(name_fin) + '$', [mk(area, cen, nrm)])
    cov = []
    for k, (st, v) in enumerate(c.outs):
        H = hyps_of(st)
        cov.append(z3.And(H + [z3.BoolVal(True)]))
        vv, m = run.prove('%s VoronoiFaceIntegral::finalize path %d: for every area > 0 the centroid is sum / (3 area); area and normal unchanged' % (pid, k),
                          H + [area > 0], z3.Not(z3.And(veq(vscale('*', fi(v, 'centroid'), 3 * area), cen), to_z3(fi(v, 'area')) == area, veq(fi(v, 'normal'), nrm))),
                          timeout=20, on_sat='caller')
        if vv == 'sat':
            a = float(engine.model_value(m, area))
            pl = {'kind': 'face_centroid', 'area': a}
            bad = check_face_centroid_native(pl)
            if bad:
                run.violation('%s VoronoiFace centroid: %s' % (pid, bad), engine.save_replay(pid, pl))
            else:
                run.suspect.append('%s finalize: counterexample (area %g) does not reproduce natively' % (pid, a))
        side_obligations(run, '%s finalize' % pid, st, [area > 0])
    run.prove('%s VoronoiFaceIntegral::finalize: paths cover every accumulator' % pid, [], z3.Not(z3.Or(cov)), timeout=10, cross=False)
    # collect: area += A, centroid += A (v0+v1+v2) with A = signed_area_tri(v0,v1,v2,gen)
    name_col = engine.find_fn_where(funcs, r'voronoi_face::<impl at [^>]*>::collect$', 'VoronoiFaceIntegral')
    v0, v1, v2, gen = rvec('v0'), rvec('v1'), rvec('v2'), rvec('gen')
    A = z3.Real('A')
    c = Call(run, funcs, '^' + __import__('re').escape(name_col) + '$', [mk(area, cen, nrm), v0, v1, v2, gen], by_ref=(0,),
             overrides={'signed_area_tri': rec('signed_area_tri', A)})
    st, _ = c.single()
    after = c.arg_after(st, 0)
    ev = [e for e in st.events if e[0] == 'signed_area_tri']
    ok = len(ev) == 1 and all(x is y for x, y in zip(ev[0][1], [v0, v1, v2, gen]))
    if not ok:
        run.suspect.append('%s collect: signed_area_tri must be evaluated on (v0, v1, v2, gen)' % pid)
    s3 = vadd(vadd(v0, v1), v2)
    run.prove('%s VoronoiFaceIntegral::collect: area += A, centroid += A (v0 + v1 + v2)' % pid, hyps_of(st),
              z3.Not(z3.And(to_z3(fi(after, 'area')) == area + A, veq(fi(after, 'centroid'), vadd(cen, vscale('*', s3, A))), veq(fi(after, 'normal'), nrm))), timeout=20)


def check_face_centroid_native(p, profile='debug'):
    """one right triangle of the given area in the plane z = 0.3, generator below: the face centroid must be the triangle centroid"""
    import math
    a0 = p['area']
    if not (a0 > 0):
        return None
    for a in (a0, a0 / 2, a0 / 16):
        bad = _face_centroid_one(a, profile)
        if bad:
            return bad
    return None


def _face_centroid_one(a, profile):
    import math
    s = math.sqrt(2 * a)
    line = 'face_collect_finalize 1 0 0 0.3 %s 0 0.3 0 %s 0.3 0.1 0.1 1' % (engine.f2s(s), engine.f2s(s))
    o = engine.native([line], profile)[0]
    if o[0] != 'ok':
        return 'native call failed: ' + ' '.join(o[1:6])
    area = float(o[1])
    cen = [float(x) for x in o[2:5]]
    exp = [s / 3, s / 3, 0.3]
    if area > 0 and any(abs(x - y) > 1e-9 * max(1.0, abs(y)) + 1e-12 * s for x, y in zip(cen, exp)):
        return 'face of area %.3e: centroid %r, expected the triangle centroid %r (centroid is off the face plane z = 0.3)' % (area, cen, exp)
    return None


def replay(d):
    if d.get('kind') == 'grid_resolution':
        bad = check_grid_resolution_native(d)
        print(bad)
        return 1 if bad else 0
    if d.get('kind') == 'intersect_guard':
        bad = check_intersect_guard_native(d)
        print(bad)
        return 1 if bad else 0
    k = d['kind']
    f = {'gridmap': check_gridmap_native, 'errb': check_errb_native, 'right_loc': check_right_loc_native, 'cuboid': check_cuboid_native, 'own_image': check_own_image_native,
         'face_centroid': check_face_centroid_native}.get(k)
    if f is None:
        raise Inconclusive('unknown replay kind ' + k)
    bad = f(d)
    print(bad)
    return 1 if bad else 0
