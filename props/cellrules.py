"""C01 / C02 (bounded): one clip of the initial box cell by an ARBITRARY plane, executed from the MIR end to end.

The real `SimulationBoundary::cuboid` + `ConvexCell::init` build the initial cell of a concrete box, the real `HalfSpace::new` builds a
half-space from a SYMBOLIC normal n and point p, the real `clip_by_plane` (with `compute_boundary`, `SimpleCycle`, `Vertex::from_dual`,
`intersect_planes`) clips the cell, and the real `compute_cell_integral::<VolumeCentroidIntegral>` (tetrahedral decomposition with
its projections, `signed_volume_tet`, `collect`, `finalize`) integrates it.  On every feasible path (one per set of removed corners) the
solver decides over the reals:

  (a) every vertex of the result lies in the closed box, on the kept side of the new plane, and the new vertices lie ON the new plane and
      on their two walls (so the vertex set is exactly the vertex set of  box /\\ half-space: the combinatorial part - which corners go,
      one new vertex per cut edge, closed polytope - is C18's obligation and is re-checked here);
  (b) the computed volume equals the closed-form volume of  box /\\ {n.x >= n.p}  (inclusion-exclusion over the box corners), an
      independent reference written here, not taken from the code;
  (c) hence for two generators (any positions: the bisector is such a plane) the two cells tile the box: V(n,p) + V(-n,p) = box volume
      (C02, decided as a polynomial identity of the reference for every corner pattern), and each volume is positive.

Bounds (stated): the initial cell only (one clip: two generators, or the first clip of any cell); concrete boxes from a small catalogue;
all three normal components non-zero (the closed form divides by n_x n_y n_z; axis-parallel planes are covered by the 1D/2D closed forms
of `linerules`); no corner inside the float error band of the plane (ties are C05/C10's subject); f64 read as exact reals."""
import itertools
import time
from fractions import Fraction

import z3

from mirsym import engine, ratfun
from mirsym.engine import Inconclusive
from mirsym.interp import Agg, Var, Ref, State, Opaque, UNIT, to_z3, is_z3, Unsupported
from .common import rvec, none, some, hyps_of
from .buildrules import pcs
from . import facerule as FR

F = Fraction
CC = 'src/voronoi/convex_cell.rs'
cc = lambda v, nm: v.items[engine.field_index(CC, 'ConvexCell', nm)]
vx = lambda v, nm: v.items[engine.field_index(CC, 'Vertex', nm)]
hs_f = lambda v, nm: v.items[engine.field_index('src/voronoi/half_space.rs', 'HalfSpace', nm)]
pl_f = lambda v, nm: v.items[engine.field_index('src/geometry.rs', 'Plane', nm)]

BOXES = [((F(0), F(0), F(0)), (F(1), F(1), F(1)), (F(3, 10), F(2, 5), F(7, 20))),
         ((F(-1), F(2), F(1, 2)), (F(2), F(1), F(3)), (F(-1, 4), F(13, 5), F(2)))]


def initial_cell(funcs, anchor, width, loc):
    """the real cuboid + init on a concrete box; returns (state, cell, boundary value)"""
    interp = engine.new_interp(funcs, max_visits=200000)
    name = engine.find_fn(funcs, r'boundary::<impl at [^>]*>::cuboid$')
    outs = interp.exec_fn(State(), name, [Agg('DVec3', list(anchor)), Agg('DVec3', list(width)), False, FR.dimv('ThreeD')], {})
    if len(outs) != 1:
        raise Inconclusive('cuboid: %d paths' % len(outs))
    st, bnd = outs[0]
    st.heap[3] = bnd
    name = engine.find_fn(funcs, r'convex_cell::<impl at [^>]*>::init$')
    outs = interp.exec_fn(st, name, [Agg('DVec3', list(loc)), 0, Ref(('H', 3))], {})
    if len(outs) != 1:
        raise Inconclusive('ConvexCell::init: %d paths' % len(outs))
    st, cell = outs[0]
    return st, cell, bnd, interp


def symbolic_plane(funcs, st, tag='c'):
    n, p = rvec(tag + 'n'), rvec(tag + 'p')
    interp = engine.new_interp(funcs)
    name = engine.find_fn(funcs, r'half_space::<impl at [^>]*>::new$')
    outs = interp.exec_fn(st, name, [n, p, some(1), none()], {})
    if len(outs) != 1:
        # abs() forks are encoded as If terms by the models; more than one path means the constructor changed shape
        raise Inconclusive('HalfSpace::new: %d paths' % len(outs))
    return outs[0][0], outs[0][1], n, p, interp


def ref_volume(nz, d, anchor, width, removed_corner, orth, denom=6):
    """closed form of vol{x in box : n.x >= d} for the given sign pattern of n (orth) and the given set of corners with n.x < d"""
    # unit-cube coordinates u: x = a + w u;  (n w).u >= d - n.a
    m = [nz[k] * width[k] for k in range(3)]
    e = d - sum(nz[k] * anchor[k] for k in range(3))
    # reflect the axes with negative normal component: u_k -> 1 - u_k
    mm = [m[k] if orth[k] > 0 else -m[k] for k in range(3)]
    ee = e - sum(m[k] for k in range(3) if orth[k] < 0)
    tot = 0
    for v in itertools.product((0, 1), repeat=3):
        orig = tuple(v[k] if orth[k] > 0 else 1 - v[k] for k in range(3))     # the box corner this reflected corner stands for
        if removed_corner(orig):
            t = ee - sum(mm[k] * v[k] for k in range(3))
            tot = tot + (-1) ** sum(v) * t * t * t
    cut = tot / (denom * mm[0] * mm[1] * mm[2])
    vol_box = width[0] * width[1] * width[2]
    return vol_box * (1 - cut), vol_box * cut


def corner_of(loc, anchor, width):
    """unit-cube corner (0/1 per axis) of a concrete vertex location, or None"""
    out = []
    for k in range(3):
        u = (F(loc[k]) - anchor[k]) / width[k]
        if u not in (0, 1):
            return None
        out.append(int(u))
    return tuple(out)


def _paths(funcs, box):
    anchor, width, loc = box
    st0, cell, bnd, i0 = initial_cell(funcs, anchor, width, loc)
    st1, hs, n, p, i1 = symbolic_plane(funcs, st0)
    nz = [to_z3(x) for x in n.items]
    pz = [to_z3(x) for x in p.items]
    d = to_z3(hs_f(hs, 'd'))
    errb = to_z3(hs_f(hs, 'errb'))
    verts = cc(cell, 'vertices').items
    corners = []
    for v in verts:
        l = [x for x in vx(v, 'loc').items]
        if any(is_z3(x) for x in l):
            raise Inconclusive('initial cell has a symbolic vertex')
        corners.append(corner_of(l, anchor, width))
    if sorted(c for c in corners if c is not None) != sorted(itertools.product((0, 1), repeat=3)):
        raise Inconclusive('initial cell of the box does not have the eight box corners as vertices: %r' % corners)
    pre = [sum(a * b for a, b in zip(nz, loc)) - d >= errb]       # the generator is on the kept side, outside the error band
    for v in verts:
        l = list(vx(v, 'loc').items)
        c_ = sum(a * b for a, b in zip(nz, l)) - d
        pre.append(z3.Or(c_ >= errb, -c_ >= errb))                 # no corner inside the error band (ties: C05 / C10)
    st1.pc.extend(pre)
    st1.heap[1] = cell
    st1.heap[2] = Agg('array', ())
    ov = {'convex_cell::ConvexCell::update_safety_radius': lambda i, s, a, c: UNIT}
    interp = engine.new_interp(funcs, overrides=ov, max_visits=400000, max_paths=200000)
    name = engine.find_fn(funcs, r'convex_cell::<impl at [^>]*>::clip_by_plane$')
    outs = interp.exec_fn(st1, name, [Ref(('H', 1)), hs, Ref(('H', 2)), Ref(('H', 3))], {})
    fns = set(i0.stats['functions']) | set(i1.stats['functions']) | set(interp.stats['functions'])
    return dict(outs=outs, panics=interp.panics, nz=nz, pz=pz, d=d, errb=errb, pre=pre, corners=corners, fns=fns, n_planes0=len(cc(cell, 'clipping_planes').items))


class _Mini:
    def __init__(self):
        self.obligations, self.suspect, self.inconclusive, self.violations, self.functions = [], [], [], [], {}
        self.solver_time = 0.0
        self.cross = False
        self.tier = 'quick'
        self.cex = []
        self.witnessed = False

    prove = engine.Run.prove

    def violation(self, what, path):
        self.violations.append((what, path))


def _identity(run, name, lhs, rhs, timeout=1500):
    """decide a rational-function identity: both sides brought to fractions, the cross-multiplied polynomial must vanish identically"""
    n1, d1 = ratfun.frac(lhs)
    n2, d2 = ratfun.frac(rhs)
    diff = n1 * d2 - n2 * d1
    t = time.time()
    # z3's polynomial normaliser (sum-of-monomials form): an identity normalises to the numeral 0 - deterministic, no search
    nf = z3.simplify(diff, som=True, mul_to_power=True, flat=True)
    if z3.is_rational_value(nf) and nf.numerator_as_long() == 0:
        dt = time.time() - t
        run.solver_time += dt
        run.obligations.append({'name': name, 'expect': 'unsat', 'verdict': 'unsat', 'solver': 'z3-5.1.0 polynomial normal form (simplify som=True): difference of the cross-multiplied sides is 0',
                                'solver_s': round(dt, 3)})
        return 'unsat', None
    # a portfolio of solver processes on the same SMT-LIB text (their run times on these polynomial identities differ by more than 30x):
    # unsat from any of them = identity; sat from any of them = not an identity (the caller then asks for a model under the path condition)
    import subprocess
    smt2 = engine.smt2_of([diff != 0], 'ALL') + '\n(check-sat)\n'
    t = time.time()
    verdicts = {}
    procs = {}

    def start(sn):
        pr = subprocess.Popen(engine.SOLVERS[sn](int(timeout)), stdin=subprocess.PIPE, stdout=subprocess.PIPE, stderr=subprocess.STDOUT, text=True)
        pr.stdin.write(smt2)
        pr.stdin.close()
        procs[sn] = pr
    start('z3-4.8.12')          # decides these identities in about 10 s when the machine is idle
    backup_started = False
    while procs and time.time() - t < timeout + 5:
        if not backup_started and time.time() - t > 90:
            backup_started = True
            start('z3-5.1.0')   # second opinion only when the first solver is slow (a loaded machine, or an identity it finds hard)
        for sn, pr in list(procs.items()):
            if pr.poll() is not None:
                out = pr.stdout.read().strip()
                first = out.split('\n')[0].strip() if out else ''
                v = first if first in ('sat', 'unsat', 'unknown') and '(error' not in out else ('timeout' if 'timeout' in out.lower() else 'error')
                verdicts[sn] = {'verdict': v, 's': round(time.time() - t, 2)}
                del procs[sn]
        if any(x['verdict'] in ('sat', 'unsat') for x in verdicts.values()):
            break
        time.sleep(0.05)
    for sn, pr in procs.items():
        pr.kill()
        verdicts[sn] = {'verdict': 'stopped (the other solver answered first)', 's': round(time.time() - t, 2)}
    dt = time.time() - t
    run.solver_time += dt
    vs = {x['verdict'] for x in verdicts.values()}
    verdict = 'unsat' if 'unsat' in vs and 'sat' not in vs else 'sat' if 'sat' in vs and 'unsat' not in vs else 'unknown'
    run.obligations.append({'name': name, 'expect': 'unsat', 'verdict': verdict, 'solver': 'portfolio z3-4.8.12 | z3-5.1.0 (CLI, SMT-LIB text)', 'solver_s': round(dt, 2), 'cross': verdicts})
    if verdict == 'unknown':
        run.inconclusive.append('%s: no solver decided the identity within %ss (%r)' % (name, timeout, verdicts))
    return verdict, None


def _worker(args):
    pid, box_no, share, nshare, want_volume, thorough, allowed = args
    funcs, _ = engine.load_mir('ibig')
    box = BOXES[box_no]
    anchor, width, loc = box
    P = _paths(funcs, box)
    mr = _Mini()
    nz, d = P['nz'], P['d']
    p_new = P['n_planes0']
    name2 = engine.find_fn(funcs, r'convex_cell::<impl at [^>]*>::compute_cell_integral$')
    vf = lambda s, nm: s.items[engine.field_index('src/voronoi/integrals.rs', 'VolumeIntegral', nm)]
    done = []
    fns = set(P['fns'])
    for k, (s, _) in enumerate(P['outs']):
        if k % nshare != share:
            continue
        H = pcs(s) + list(s.defs)
        c2 = s.heap[1]
        verts = cc(c2, 'vertices').items
        planes = cc(c2, 'clipping_planes').items
        kept_corners = set()
        newv = []
        for v in verts:
            dual = tuple(vx(v, 'dual').items)
            l = list(vx(v, 'loc').items)
            if p_new in dual:
                newv.append((dual, l))
            else:
                kept_corners.add(corner_of(l, anchor, width))
        removed = set(itertools.product((0, 1), repeat=3)) - kept_corners
        tag = '%s box %d path %d (%d corners removed, %d vertices)' % (pid, box_no, k, len(removed), len(verts))
        if len(removed) not in allowed:
            done.append((k, len(removed), -1))
            continue
        # (0) the removed set is the set of corners on the negative side
        conds = []
        for cn in itertools.product((0, 1), repeat=3):
            x = [anchor[a] + width[a] * cn[a] for a in range(3)]
            side = sum(nz[a] * x[a] for a in range(3)) - d
            conds.append(side < 0 if cn in removed else side > 0)
        mr.prove('%s: exactly the corners with n.x < n.p are removed' % tag, H, z3.Not(z3.And(conds)), timeout=30, cross=False)
        if not removed:
            if len(planes) != p_new:
                mr.suspect.append('%s: a plane was added although nothing was clipped' % tag)
            done.append((k, 0, 0))
            continue
        # (a) new vertices: on the new plane, on their two walls, inside the box
        conds = []
        for dual, l in newv:
            lz = [to_z3(x) for x in l]
            conds.append(sum(nz[a] * lz[a] for a in range(3)) == d)
            for pi in dual:
                if pi == p_new:
                    continue
                hp = planes[pi]
                pn = [to_z3(x) for x in pl_f(hs_f(hp, 'plane'), 'n').items]
                conds.append(sum(pn[a] * lz[a] for a in range(3)) == to_z3(hs_f(hp, 'd')))
            for a in range(3):
                conds += [lz[a] >= anchor[a], lz[a] <= anchor[a] + width[a]]
        # one new vertex per cut edge of the box
        cut_edges = 0
        for c1, c2_ in itertools.combinations(itertools.product((0, 1), repeat=3), 2):
            if sum(abs(a - b) for a, b in zip(c1, c2_)) == 1 and ((c1 in removed) != (c2_ in removed)):
                cut_edges += 1
        if len(newv) != cut_edges:
            mr.suspect.append('%s: %d new vertices for %d cut edges' % (tag, len(newv), cut_edges))
        vv, m = mr.prove('%s: the %d new vertices lie on the new plane, on their two walls and inside the box' % (tag, len(newv)), H, z3.Not(z3.And(conds)), timeout=60,
                         cross=False, on_sat='caller')
        if vv == 'sat':
            mr.cex.append(('vertex', box_no, [float(engine.model_value(m, x)) for x in P['nz'] + P['pz']]))
        if not want_volume:
            done.append((k, len(removed), 0))
            continue
        # (b) volume = closed form
        i2 = engine.new_interp(funcs, max_visits=800000, max_paths=200000)
        s.heap[50] = c2
        o2 = i2.exec_fn(s, name2, [Ref(('H', 50)), UNIT], {'M': 'WithoutFaces', 'I': 'VolumeIntegral', 'D': '()'})
        fns |= set(i2.stats['functions'])
        norths = 0
        seen_vol = []
        for s3, v in o2:
            vol = to_z3(vf(v, 'volume'))
            if any(z3.eq(vol, w) for w in seen_vol):
                continue        # finalize forks on the sign of the volume; the volume term itself is the same
            seen_vol.append(vol)
            for orth in itertools.product((1, -1), repeat=3):
                Ho = H + [(a > 0 if sg > 0 else a < 0) for a, sg in zip(nz, orth)]
                # is this sign pattern of the normal compatible with the removed-corner set?  Exact linear question: the plane offset
                # d = n.p ranges over all reals for n != 0, so (n, d) with the corner signs of this path is a linear feasibility problem
                ln = [z3.Real('lin_n%d' % a) for a in range(3)]
                ld = z3.Real('lin_d')
                sol = z3.Solver()
                for a, sg in enumerate(orth):
                    sol.add(ln[a] > 0 if sg > 0 else ln[a] < 0)
                for cn in itertools.product((0, 1), repeat=3):
                    x = [anchor[a] + width[a] * cn[a] for a in range(3)]
                    side = sum(ln[a] * x[a] for a in range(3)) - ld
                    sol.add(side < 0 if cn in removed else side > 0)
                sol.add(sum(ln[a] * loc[a] for a in range(3)) - ld > 0)
                if sol.check() != z3.sat:
                    continue
                norths += 1
                ref, cut = ref_volume(nz, d, anchor, width, lambda cn: cn in removed, orth)
                vv, m = _identity(mr, '%s, normal orthant %r: computed volume = closed-form volume of box /\\ half-space' % (tag, orth), vol, ref)
                if not mr.witnessed and vv == 'unsat':
                    # vacuity guard: the same query against a perturbed reference (a tetrahedron volume of base*height/5) must NOT be an identity
                    mr.witnessed = True
                    bad_ref, _ = ref_volume(nz, d, anchor, width, lambda cn: cn in removed, orth, denom=5)
                    n1_, d1_ = ratfun.frac(vol)
                    n2_, d2_ = ratfun.frac(bad_ref)
                    vars_ = P['nz'] + P['pz']
                    vals_ = [z3.RealVal(x) for x in (2 * orth[0], 3 * orth[1], 5 * orth[2], F(1, 3), F(2, 7), F(3, 11))]
                    g_ = z3.simplify(z3.substitute(n1_ * d2_ - n2_ * d1_, *zip(vars_, vals_)))
                    wv = 'sat' if z3.is_rational_value(g_) and g_.numerator_as_long() != 0 else 'unknown'
                    mr.obligations.append({'name': '%s, orthant %r: self-mutation witness (reference with 1/5 instead of 1/6) is refuted by a ground instance' % (tag, orth),
                                           'expect': 'sat', 'verdict': wv, 'solver': 'z3 (ground instance)', 'solver_s': 0.0})
                    if wv != 'sat':
                        mr.inconclusive.append('%s: vacuity witness not refuted (%s)' % (tag, wv))
                if vv == 'sat':
                    # not an identity: a concrete plane of this path and orthant for the native replay
                    s_ = z3.Solver()
                    s_.set('timeout', 20000)
                    for h in Ho:
                        s_.add(h)
                    s_.add(ratfun.clear(vol != ref))
                    if s_.check() == z3.sat:
                        m2 = s_.model()
                        mr.cex.append(('volume', box_no, [float(engine.model_value(m2, x)) for x in P['nz'] + P['pz']]))
                # (c) C02: the complementary cell (plane -n through the same point) has the complementary closed form, and both are positive
                ref2, cut2 = ref_volume([-x for x in nz], -d, anchor, width, lambda cn: cn not in removed, tuple(-o for o in orth))
                _identity(mr, '%s, orthant %r: closed forms of the two sides of the plane add up to the box volume' % (tag, orth), ref + ref2,
                          z3.RealVal(1) * width[0] * width[1] * width[2])
                if thorough:
                    mr.prove('%s, orthant %r: the cell has positive volume' % (tag, orth), Ho, ratfun.clear(z3.Not(ref > 0)), timeout=300, cross=False, clear_div=False)
        done.append((k, len(removed), norths))
    return {'obligations': mr.obligations, 'suspect': mr.suspect, 'inconclusive': mr.inconclusive, 'solver_time': mr.solver_time, 'cex': mr.cex,
            'done': done, 'paths': len(P['outs']), 'panics': len(P['panics']), 'fns': sorted(fns)}


def single_clip(run, funcs, pid, boxes=(0,), procs=12, want_volume=True, thorough=False, allowed=(0, 1, 2, 3, 4, 5, 6, 7, 8)):
    import multiprocessing as mp
    jobs = [(pid, b, sh, procs, want_volume, thorough, tuple(allowed)) for b in boxes for sh in range(procs)]
    with mp.get_context('fork').Pool(min(16, len(jobs))) as pool:
        results = pool.map(_worker, jobs)
    cex = []
    for b in boxes:
        rs = [r for r, j in zip(results, jobs) if j[1] == b]
        npaths = rs[0]['paths']
        done = sorted(x for r in rs for x in r['done'])
        if [x[0] for x in done] != list(range(npaths)):
            run.inconclusive.append('%s box %d: %d of %d paths processed' % (pid, b, len(done), npaths))
        if rs[0]['panics']:
            run.suspect.append('%s box %d: clip_by_plane has %d panicking paths for planes without ties' % (pid, b, rs[0]['panics']))
        run.samples.append({'box': [str(x) for x in BOXES[b][0]] + [str(x) for x in BOXES[b][1]], 'generator': [str(x) for x in BOXES[b][2]], 'paths': npaths,
                            'removed_corner_counts': sorted({x[1] for x in done}), 'orthant_cases': sum(x[2] for x in done if x[2] > 0)})
    for r in results:
        run.obligations.extend(r['obligations'])
        run.suspect.extend(r['suspect'])
        run.inconclusive.extend(r['inconclusive'])
        run.solver_time += r['solver_time']
        cex.extend(r['cex'])
        for f in r['fns']:
            if f in funcs:
                run.functions[f] = funcs[f].nblocks
    # obligations that came back sat are counterexamples: replay natively through the public API (two generators whose bisector is the plane)
    bad_obl = [o for o in run.obligations if o['expect'] == 'unsat' and o['verdict'] == 'sat' and o['name'].startswith(pid + ' box')]
    if bad_obl or cex:
        ok = False
        for kind, b, vals in cex[:6]:
            r = replay_plane({'kind': 'clip_plane', 'box': b, 'n': vals[:3], 'p': vals[3:6]})
            if r:
                run.violation('%s single clip: %s' % (pid, r), engine.save_replay(pid, {'kind': 'clip_plane', 'box': b, 'n': vals[:3], 'p': vals[3:6]}))
                ok = True
                break
        if not ok:
            r = replay_plane({'kind': 'clip_plane_family'})
            if r:
                run.violation('%s single clip: %s' % (pid, r), engine.save_replay(pid, {'kind': 'clip_plane_family'}))
            else:
                run.suspect.append('%s single clip: %d obligations have counterexamples (%s) but no two-generator build differs natively from the closed form'
                                   % (pid, len(bad_obl), bad_obl[0]['name'][:160] if bad_obl else cex[0][0]))
    run.bound('single clip: paths with %r removed corners decided in this tier' % (tuple(allowed),))
    run.bound('single clip: initial cell of %d concrete box(es) (real cuboid + init), symbolic plane through a symbolic point (6 real unknowns), all normal components non-zero, '
              'no corner within the float error band; one path per removed-corner set' % len(boxes))


def exact_cut_volume(n, d, anchor, width):
    """closed form in floating point (for the native comparison)"""
    m = [n[k] * width[k] for k in range(3)]
    e = d - sum(n[k] * anchor[k] for k in range(3))
    for k in range(3):
        if m[k] < 0:
            e -= m[k]
            m[k] = -m[k]
    if min(m) <= 1e-9 * max(m):
        return None
    tot = 0.0
    for v in itertools.product((0, 1), repeat=3):
        t = e - sum(m[k] * v[k] for k in range(3))
        if t > 0:
            tot += (-1) ** sum(v) * t ** 3
    return width[0] * width[1] * width[2] * (1 - tot / (6 * m[0] * m[1] * m[2]))


def replay_plane(p, profile=None):
    """two generators g1, g2 in the box whose bisector is the plane (n, point): the real Voronoi::build must give the closed-form volumes"""
    from . import oracle as OR
    import math
    cases = []
    if p['kind'] == 'clip_plane':
        cases.append((p['box'], p['n'], p['p']))
    else:
        for b in range(len(BOXES)):
            for n_ in ((1.0, 0.7, 0.4), (-0.3, 1.0, 0.6), (0.5, -0.8, 1.0), (-1.0, -0.6, -0.9), (0.2, 0.3, -1.0), (1.0, 1.0, 1.0)):
                for t in (0.25, 0.5, 0.8):
                    a, w, _ = BOXES[b]
                    cases.append((b, list(n_), [float(a[k]) + t * float(w[k]) for k in range(3)]))
    for b, n_, pt in cases:
        a = [float(x) for x in BOXES[b][0]]
        w = [float(x) for x in BOXES[b][1]]
        ln = math.sqrt(sum(x * x for x in n_))
        if ln == 0:
            continue
        u = [x / ln for x in n_]
        # largest h such that pt +- h u stay inside the box
        h = min(min(((a[k] + w[k] - pt[k]) / u[k]) if u[k] > 0 else ((a[k] - pt[k]) / u[k]) if u[k] < 0 else 1e9 for k in range(3)),
                min(((pt[k] - a[k]) / u[k]) if u[k] > 0 else ((pt[k] - a[k] - w[k]) / u[k]) if u[k] < 0 else 1e9 for k in range(3)))
        if not h > 1e-6 * min(w):
            continue
        h *= 0.5
        g1 = [pt[k] + h * u[k] for k in range(3)]
        g2 = [pt[k] - h * u[k] for k in range(3)]
        sc = {'kind': 'scenario', 'dim': 3, 'periodic': False, 'anchor': a, 'width': w, 'gens': [g1, g2], 'mask': None}
        d = sum(u[k] * pt[k] for k in range(3))
        v1 = exact_cut_volume(u, d, a, w)
        if v1 is None:
            continue
        for prof in ('debug', 'release'):
            o = engine.native([OR.build_line('build', sc)], prof)[0]
            if o[0] != 'ok':
                return 'two generators %r, %r in the box %r + %r: construction panics (%s build)' % (g1, g2, a, w, prof)
            cells, faces, conn = OR.parse_build(o[1:])
            box = w[0] * w[1] * w[2]
            if abs(cells[0]['volume'] - v1) > 1e-9 * box or abs(cells[1]['volume'] - (box - v1)) > 1e-9 * box:
                return ('two generators %r, %r in the box %r + %r: cell volumes %r, %r; the exact volumes of the two sides of their bisector are %r, %r (%s build)'
                        % (g1, g2, a, w, cells[0]['volume'], cells[1]['volume'], v1, box - v1, prof))
    return None


def replay(d):
    r = replay_plane(d)
    print(r)
    return 1 if r else 0
