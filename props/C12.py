"""C12 - cell-face connectivity is a consistent index structure."""
import json

from mirsym import engine
from . import buildrules as BR, connrules as CN

LEVEL = 'other'
EXPLANATION = ('Engine M executes the real Voronoi::finalize, VoronoiCell::face_indices and neighbour_ids from the MIR on an ARBITRARY face list '
               '(3 cells x 2 faces quick, 3 x 3 / 4 x 2 thorough): left/right labels symbolic, presence of right/shift enumerated, symbolic indices into the '
               'per-cell lists forked and pruned by z3; constrained only by the producer invariants that C03/C07 establish. On every feasible path z3 decides: '
               'offsets are the prefix sums of the face counts, the total equals the array length, each cell lists exactly the faces whose left it is or whose '
               'unshifted right it is, once each; neighbour_ids yields exactly the other side of its non-boundary non-periodic faces, never the cell itself, no '
               'duplicates - also for cells that were not constructed, whose index is tied to their position at both creation sites (direct and '
               'integrator route) by the MIR of the build closures. A Kani version of the same harness exhausts the SAT back end\'s memory (measured, 3 cells / 2 faces) and is not used.')

def check(run):
    funcs, info = engine.load_mir('ibig')
    run.mir_info.append(info)
    run.guard(BR.check_direct_build_closure, funcs, 'C12')
    run.guard(BR.check_integrator_closures, funcs, 'C12')
    run.guard(CN.cell_record, funcs, 'C12')
    if run.tier == 'quick':
        CN.check(run, funcs, 'C12', 3, 2)
    else:
        CN.check(run, funcs, 'C12', 3, 3)
        CN.check(run, funcs, 'C12', 4, 2)
    run.assume('producer invariants assumed by the harness: left is a constructed cell; an unshifted face has right != left; at most one unshifted face per '
               'unordered pair; a shifted face has a right generator (established by the C03/C07 obligations)')
    return run.finish(LEVEL, EXPLANATION, trusted=['rustc -Zunpretty=mir', 'z3 5.1.0', 'std Vec/iterator models of mirsym'])


def replay(path):
    d = json.load(open(path))
    if d['kind'] == 'connectivity':
        bad = CN.check_native(d.get('profile', 'debug'))
        print(bad)
        return 1 if bad else 0
    return BR.replay(d)
