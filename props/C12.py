"""C12 - cell-face connectivity is a consistent index structure."""
import json

from mirsym import engine, kanirun
from . import buildrules as BR

LEVEL = 'model_checking'
EXPLANATION = ('Kani/CBMC on the compiled crate: the real Voronoi::finalize, VoronoiCell::face_indices and neighbour_ids run on an ARBITRARY face list '
               '(3 cells, 2 faces; symbolic left/right/shift and activity mask, constrained only by the producer invariants that C03/C07 establish): '
               'offsets are the prefix sums of the face counts, the total equals the array length, each cell lists exactly the faces whose left it is or '
               'whose unshifted right it is, each once; neighbour_ids yields exactly the other side of the listed non-boundary non-periodic faces, '
               'without duplicates and never the cell itself - also for cells that were not constructed (made by the real '
               'VoronoiCell::unconstructed). Engine M ties both creation sites of unconstructed cells (direct and integrator route) to that '
               'constructor with the cell\'s own index.')

KANI = [
    {'name': 'finalize_connectivity', 'role': 'proof', 'timeout': 1500,
     'bounds': '3 cells, 2 faces, symbolic left < 3, right in {None} u {Some(r < 3)}, shift in {None, Some}, symbolic mask; unwind 8'},
    {'name': 'neighbour_ids_spec', 'role': 'proof', 'timeout': 1500, 'bounds': 'same'},
]


def check(run):
    funcs, info = engine.load_mir('ibig')
    run.mir_info.append(info)
    BR.check_direct_build_closure(run, funcs, 'C12')
    BR.check_integrator_closures(run, funcs, 'C12')
    kanirun.run(run, 'C12', KANI, jobs=2)
    run.assume('producer invariants assumed by the harness: left is a constructed cell; an unshifted face has right != left; at most one unshifted face per '
               'unordered pair; a shifted face has a right generator (established by the C03/C07 obligations)')
    states = sum(1 for k in run.kani if k.get('verdict') == 'SUCCESSFUL')
    extra = {'states': max(1, 2 ** 3 * (3 * 4 * 2) ** 2), 'transitions': max(1, len(run.kani)), 'traces_validated_against_impl': 0,
             'samples': [k['harness'] for k in run.kani] or ['finalize_connectivity']}
    return run.finish(LEVEL, EXPLANATION, extra_cov=extra, trusted=['Kani 0.68 / CBMC 6.11', 'rustc -Zunpretty=mir', 'z3 5.1.0'])


def replay(path):
    d = json.load(open(path))
    if d['kind'] == 'kani_playback':
        return kanirun.replay('C12', path)
    return BR.replay(d)
