"""C10.a / C11: the exact in-sphere predicate, from the MIR of `in_sphere_test_exact`, equals the sign of
the 4x4 lifted determinant for all 15 coordinates in [0, 2^52).  Shared by C10 (ibig) and C11 (every
buildable backend)."""
import itertools
import json
import random
import re
from fractions import Fraction

import z3

from mirsym import engine, models
from mirsym.engine import Inconclusive, log
from mirsym.interp import Agg, Ref, State, Unsupported, to_z3

R52 = 2 ** 52
NAMES = 'abcdv'


def sym_points():
    return {nm: [z3.Int('%s%d' % (nm, j)) for j in range(3)] for nm in NAMES}


def det_leibniz(rows):
    """24-term Leibniz expansion of a 4x4 matrix (independent reference; not taken from the code)"""
    n = len(rows)
    total = 0
    for perm in itertools.permutations(range(n)):
        inv = sum(1 for i in range(n) for j in range(i + 1, n) if perm[i] > perm[j])
        term = 1
        for i in range(n):
            term = term * rows[i][perm[i]]
        total = total + (-term if inv % 2 else term)
    return total


def ref_det(P):
    """lifted determinant with columns (x-a, |x-a|^2), x in {b,c,d,v} (Springel 2010 eq. 3 in relative coordinates)"""
    cols = []
    for nm in 'bcdv':
        d = [P[nm][j] - P['a'][j] for j in range(3)]
        cols.append(d + [d[0] * d[0] + d[1] * d[1] + d[2] * d[2]])
    rows = [[cols[c][r] for c in range(4)] for r in range(4)]
    return det_leibniz(rows)


def range_hyps(P, lo=0, hi=R52):
    h = []
    for nm in NAMES:
        for x in P[nm]:
            h.append(x >= lo)
            h.append(x < hi)
    return h


def encode(funcs, P, model_table=None):
    """symbolically execute the real MIR; returns (interp, outcomes, code_det term)"""
    interp = engine.new_interp(funcs)
    if model_table is not None:
        interp.models = model_table
    st = State()
    args = []
    for k, nm in enumerate(NAMES):
        st.heap[1000 + k] = Agg('array', P[nm])
        args.append(Ref(('H', 1000 + k)))
    fn = engine.find_fn(funcs, r'^in_sphere_test_exact$')
    outs = interp.exec_fn(st, fn, args, {})
    dets = set()
    det_terms = []
    for s, v in outs:
        for ev in s.events:
            if ev[0] == 'bigint_sign_arg':
                det_terms.append(ev[1])
    if not det_terms:
        # the sign may be taken after the conversion to f64: the determinant is then the big integer handed to to_f64
        for s, v in outs:
            for ev in s.events:
                if ev[0] == 'bigint_to_f64_arg':
                    det_terms.append(ev[1])
    if not det_terms:
        raise Inconclusive('the sign extraction of in_sphere_test_exact was not reached (no big-integer sign call recorded)')
    d0 = det_terms[0]
    for d in det_terms[1:]:
        if not z3.eq(to_z3(d), to_z3(d0)):
            raise Inconclusive('different determinant terms on different paths')
    return interp, outs, d0


def py_sign(x):
    return (x > 0) - (x < 0)


def exact_ref_sign(pts):
    P = {nm: list(pts[nm]) for nm in NAMES}
    return py_sign(ref_det(P))


def native_signs(samples, profile='debug', backend='ibig'):
    lines = ['insphere_exact ' + ' '.join(str(x) for nm in NAMES for x in s[nm]) for s in samples]
    outs = engine.native(lines, profile, backend)
    res = []
    for o in outs:
        if o[0] != 'ok':
            res.append(None)
        else:
            res.append(int(float(o[1])))
    return res


def gen_samples(seed, n):
    rng = random.Random(seed)
    out = []
    # structured: unit tetrahedron and a point on / inside / outside its circumsphere
    base = {'a': [0, 0, 0], 'b': [1, 0, 0], 'c': [0, 1, 0], 'd': [0, 0, 1]}
    for v in ([1, 1, 1], [1, 1, 0], [0, 0, 0], [2, 2, 2], [1, 0, 1]):
        out.append(dict(base, v=v))
    out.append({'a': [0, 0, 0], 'b': [1, 0, 0], 'c': [0, 0, 1], 'd': [0, 1, 0], 'v': [0, 0, 1]})
    # lattice (co-spherical) +-1 on the full 52-bit range
    while len(out) < n // 2:
        o = [rng.randrange(2, R52 - 4) for _ in range(3)]
        h = rng.randrange(1, min(2 ** 20, R52 - max(o) - 2))
        corners = [[o[0] + dx * h, o[1] + dy * h, o[2] + dz * h] for dx in (0, 1) for dy in (0, 1) for dz in (0, 1)]
        pts = rng.sample(corners, 5)
        if rng.random() < 0.5:
            pts[4][rng.randrange(3)] += rng.choice((-1, 1))
        out.append(dict(zip(NAMES, pts)))
    while len(out) < n:
        bits = rng.choice((3, 8, 20, 52))
        out.append({nm: [rng.randrange(0, 2 ** bits) for _ in range(3)] for nm in NAMES})
    return out


def cospherical_samples(seed, n):
    """signed permutations of (p,q,s) around a centre lie on one sphere; the query point is on it or one grid unit off"""
    rng = random.Random(seed)
    out = []
    while len(out) < n:
        bits = rng.choice((6, 20, 40, 50))
        p, q, s = (rng.randrange(1, 2 ** bits) for _ in range(3))
        m = max(p, q, s)
        c = [rng.randrange(m + 2, R52 - m - 2) for _ in range(3)]
        pts = []
        for perm in itertools.permutations((p, q, s)):
            for sg in itertools.product((1, -1), repeat=3):
                pts.append([c[k] + sg[k] * perm[k] for k in range(3)])
        pts = [list(x) for x in {tuple(x) for x in pts}]
        if len(pts) < 5:
            continue
        pick = rng.sample(pts, 5)
        if rng.random() < 0.6:
            pick[4][rng.randrange(3)] += rng.choice((-1, 1))
        out.append(dict(zip(NAMES, pick)))
    return out


def clustered_samples(seed, n):
    """five points within 2^k grid units of each other for k = 8 .. 40 (tight clusters take any fixed-width fast path), generic and
    co-spherical; coordinates anywhere in the 52-bit range"""
    rng = random.Random(seed)
    out = []
    while len(out) < n:
        k = rng.choice((8, 16, 24, 28, 29, 30, 31, 32, 36, 40))
        h = 1 << k
        c = [rng.randrange(h + 2, R52 - h - 2) for _ in range(3)]
        if rng.random() < 0.5:
            pts = [[c[a] + rng.randrange(-h + 1, h) for a in range(3)] for _ in range(5)]
        else:
            p, q, s = (rng.randrange(1, h // 2 + 1) for _ in range(3))
            cand = {tuple(c[a] + sg[a] * perm[a] for a in range(3)) for perm in itertools.permutations((p, q, s)) for sg in itertools.product((1, -1), repeat=3)}
            if len(cand) < 5:
                continue
            pts = [list(x) for x in rng.sample(sorted(cand), 5)]
            if rng.random() < 0.5:
                pts[4][rng.randrange(3)] += rng.choice((-1, 1))
        out.append(dict(zip(NAMES, pts)))
    return out


def layered_samples(seed, n):
    """co-spherical / nearly co-spherical points whose coordinates along one or two axes are multiples of a large power of two (regular layers)"""
    rng = random.Random(seed)
    out = []
    while len(out) < n:
        tz = [rng.choice((0, 0, 16, 20, 32, 40)) for _ in range(3)]
        bits = rng.choice((20, 40, 50))
        p, q, s = ((rng.randrange(1, 2 ** bits) >> t) << t or (1 << t) for t in tz)
        m = max(p, q, s)
        if m + 2 >= R52 // 2:
            continue
        c = [((rng.randrange(m + 2, R52 - m - 2)) >> t) << t for t in tz]
        cand = {tuple(c[a] + sg[a] * v[a] for a in range(3)) for v in ((p, q, s),) for sg in itertools.product((1, -1), repeat=3)}
        cand = [list(x) for x in cand if all(0 <= y < R52 for y in x)]
        if len(cand) < 5:
            continue
        pick = rng.sample(cand, 5)
        if rng.random() < 0.7:
            a = rng.randrange(3)
            pick[4][a] += rng.choice((-1, 1)) * (1 << tz[a] if rng.random() < 0.5 else 1)
            if not 0 <= pick[4][a] < R52:
                continue
        out.append(dict(zip(NAMES, pick)))
    return out


def native_vs_reference(seed, n, backend='ibig'):
    """native function vs the exact reference on adversarial samples (used when the encoding cannot be built)"""
    samples = gen_samples(seed + 5, n // 4) + cospherical_samples(seed + 6, n // 4) + clustered_samples(seed + 7, n // 4) + layered_samples(seed + 8, n // 4)
    nat = native_signs(samples, 'release', backend)
    bad = []
    for smp, s in zip(samples, nat):
        # orientation-independent statement: the predicate must equal the sign of the lifted determinant
        if s is None or s != exact_ref_sign(smp):
            bad.append(smp)
    return bad


def eval_term(term, P, pts):
    subs = [(P[nm][j], z3.IntVal(pts[nm][j])) for nm in NAMES for j in range(3)]
    v = z3.simplify(z3.substitute(to_z3(term), *subs))
    if not z3.is_int_value(v):
        raise Inconclusive('encoding did not evaluate to a constant')
    return v.as_long()


def check_backend(run, backend, prefix, thorough=False):
    """all obligations for one backend; returns list of candidate counterexamples (dicts of points)"""
    funcs, info = engine.load_mir(backend)
    run.mir_info.append(info)
    P = sym_points()
    interp, outs, code_det = encode(funcs, P)
    run.add_functions(interp, funcs)
    rng_h = range_hyps(P)
    run.bound('%s: 15 integer coordinates, each in [0, 2^52); five slices of length 3' % backend)
    # (i) recorded MIR asserts (overflow of the i64 subtractions; index checks are concrete under len = 3)
    seen = set()
    n_assert = 0
    assert_cands = []
    n_unknown = 0
    for s, v in outs:
        for (pc, cond, msg, where) in s.asserts:
            key = (str(cond), where)
            if key in seen:
                continue
            seen.add(key)
            n_assert += 1
            if n_unknown >= 3:
                continue        # three assertions undecided already: the remaining ones of this (changed) function are not attempted; the run is inconclusive
            va, ma = run.prove('%s.i assert cannot fail: %s @%s' % (prefix, msg[:40], where.split(':')[-1]), rng_h + list(pc), z3.Not(cond), timeout=30,
                               cross=(n_assert <= 2), on_sat='caller')
            if va == 'sat':
                assert_cands.append({nm: [engine.model_value(ma, x) for x in P[nm]] for nm in NAMES})
            if va == 'unknown':
                n_unknown += 1
            if va == 'unknown' and len(assert_cands) < 3:
                # no verdict on the general (non-linear) query: decide ground instances at the corners of plausible fixed-width ranges
                g = corner_instance(rng_h + list(pc), z3.Not(cond), P)
                if g is not None:
                    assert_cands.append(g)
                elif backend == 'ibig' and not assert_cands:
                    # still nothing: the real function against the exact reference on tight clusters (debug build: an overflow panics)
                    cl = clustered_samples(run.seed + 23, 400)
                    for prof_ in ('debug', 'release'):
                        nat_ = native_signs(cl, prof_)
                        bad_ = [smp for smp, s_ in zip(cl, nat_) if s_ is None or s_ != exact_ref_sign(smp)]
                        if bad_:
                            assert_cands.extend(bad_[:2])
                            break
    if interp.panics:
        # any reachable panic path (e.g. concrete index failure) under the range
        for pc, msg, st in interp.panics:
            run.prove('%s.i panic path unreachable: %s' % (prefix, msg[:50]), rng_h + list(pc), True, timeout=30)
    # (ii) code determinant == Leibniz reference, as polynomials over Z on the whole range
    ref = ref_det(P)
    v2, m2 = run.prove('%s.ii code_det != leibniz_det (all coordinates in [0,2^52))' % prefix, rng_h, to_z3(code_det) != ref, timeout=120, on_sat='caller',
                       sample={'backend': backend, 'vars': 15, 'range': '[0,2^52)'})
    # (iii) the tail returns exactly sgn(D) for an arbitrary integer D (D abstracts the determinant term)
    D = z3.Int('D')
    tail_bad = []
    for k, (s, val) in enumerate(outs):
        pc = [z3.substitute(c, (to_z3(code_det), D)) for c in s.pc if not isinstance(c, bool)]
        valz = to_z3(val)
        valz = z3.substitute(valz, (to_z3(code_det), D))
        sg = z3.If(D > 0, z3.RealVal(1), z3.If(D < 0, z3.RealVal(-1), z3.RealVal(0)))
        v3, m3 = run.prove('%s.iii path %d returns sgn(D)' % (prefix, k), pc, valz != sg, timeout=30, on_sat='caller')
        if v3 == 'sat':
            dval = engine.model_value(m3, D)
            tail_bad.append(py_sign(dval))
        for (spc, cond, msg) in s.side:
            if 'to_f64 exact only within' in msg and any(e[0] == 'bigint_sign_arg' for e in s.events) is False:
                # sign taken after the conversion: only the sign of the conversion matters (round-to-nearest keeps it), not exactness
                continue
            c2 = z3.substitute(to_z3(cond), (to_z3(code_det), D)) if not isinstance(cond, bool) else z3.BoolVal(cond)
            spc2 = [z3.substitute(c, (to_z3(code_det), D)) for c in spc]
            run.prove('%s.iii side condition: %s' % (prefix, msg[:40]), spc2, z3.Not(c2), timeout=30, cross=False)
    # the paths cover all D: disjunction of path conditions is valid
    pcs = []
    for s, val in outs:
        pcs.append(z3.And([z3.substitute(c, (to_z3(code_det), D)) for c in s.pc if not isinstance(c, bool)] + [z3.BoolVal(True)]))
    run.prove('%s.iii paths cover every D (given the asserts of (i))' % prefix, rng_h, z3.Not(z3.Or(pcs)), timeout=30)

    # translator validation: encoding vs the real function on concrete samples (ibig build = the replay binary)
    samples = gen_samples(run.seed + 17, 200 if not thorough else 1000) + cospherical_samples(run.seed + 18, 100 if not thorough else 1000) + \
        clustered_samples(run.seed + 19, 150 if not thorough else 1000)
    enc_signs = [py_sign(eval_term(code_det, P, s)) for s in samples]
    if backend == 'ibig':
        nat = native_signs(samples)
        mism = [(s, e, n) for s, e, n in zip(samples, enc_signs, nat) if e != n]
        run.validation['samples'] += len(samples)
        run.validation['mismatches'] += len(mism)
        if mism:
            run.inconclusive.append('translator validation failed: encoding and native function disagree on %r' % (mism[0],))
    # self-mutation: one model perturbed -> (ii) must become sat
    mut_models = []
    for rx, fn in models.MODELS:
        if 'sub_assign' in rx.pattern and 'DVec3' not in rx.pattern:
            def addassign(i, st, a, c):
                x = i.deref_read(st, a[0])
                from mirsym.interp import arith
                i.deref_write(st, a[0], Agg('BigInt', (arith('+', x.items[0], a[1].items[0]),)))
                from mirsym.interp import UNIT
                return UNIT
            mut_models.append((rx, addassign))
        else:
            mut_models.append((rx, fn))
    _, _, mut_det = encode(funcs, P, mut_models)
    run.prove('%s.ii self-mutation (SubAssign read as AddAssign) must be detected' % prefix, rng_h, to_z3(mut_det) != ref, timeout=60,
              expect='sat', cross=False)

    cands = list(assert_cands)
    if tail_bad:
        # the sign extraction returns something else than sgn(D) for a determinant of sign s: native points with that determinant sign
        pool = gen_samples(run.seed + 17, 200) + cospherical_samples(run.seed + 18, 200)
        for sg_ in sorted(set(tail_bad)):
            cands.extend([smp for smp in pool if exact_ref_sign(smp) == sg_][:3])
    if v2 == 'sat':
        cands.append({nm: [engine.model_value(m2, x) for x in P[nm]] for nm in NAMES})
        # sample points where the *encoding* (validated against the native function above) disagrees in sign
        for smp, e in zip(samples, enc_signs):
            if e != exact_ref_sign(smp):
                cands.append(smp)
                if len(cands) >= 4:
                    break
        if len(cands) < 2:
            # ask the solver for sign disagreements specifically (ties first: cheap, and the usual way a wrong term shows)
            for nm_q, extra in (('ref=0, code!=0', [ref == 0, to_z3(code_det) != 0]),
                                ('code=0, ref!=0', [to_z3(code_det) == 0, ref != 0])):
                for hi in (3, 8):
                    s = z3.Solver()
                    s.set('timeout', 10000)
                    for h in range_hyps(P, 0, hi) + extra:
                        s.add(h)
                    r = s.check()
                    if r == z3.sat:
                        mm = s.model()
                        cands.append({nm: [engine.model_value(mm, x) for x in P[nm]] for nm in NAMES})
                        break
    return cands, P, code_det


def corner_instance(hyps, neg_goal, P, tries=120, seed=7):
    """ground-instance search for an undecided overflow / range assertion: a = origin, the other coordinates at the ends of ranges a
    fixed-width fast path may use (2^k - 1 for several k) with seeded sign patterns; every instance is decided by z3 (ground formula).
    Returns a point dict or None (nothing found is never a proof)"""
    import random
    rng = random.Random(seed)
    base = 1 << 40
    mags = [(1 << k) - 1 for k in (20, 26, 28, 29, 30, 31, 32, 40, 51)]
    for t in range(tries):
        m = mags[t % len(mags)] if t < 4 * len(mags) else rng.choice(mags)
        pt = {'a': [base, base, base]}
        for nm in NAMES[1:]:
            if t < len(mags):
                pt[nm] = [base + m, base + m, base + m]
            else:
                pt[nm] = [base + rng.choice((-m, m, 0, m // 2, -(m // 3))) for _ in range(3)]
        if any(x < 0 or x >= R52 for nm in NAMES for x in pt[nm]):
            continue
        s = z3.Solver()
        s.set('timeout', 2000)
        for h in hyps:
            s.add(h)
        s.add(neg_goal)
        for nm in NAMES:
            for x, v in zip(P[nm], pt[nm]):
                s.add(x == v)
        if s.check() == z3.sat:
            return pt
    return None


def confirm_and_report(run, pid, cands, what, backend='ibig'):
    """native replay of candidate points (against a build with the given backend); VIOLATION only on a native sign mismatch"""
    if not cands:
        return
    reproduced = False
    for prof in ('debug', 'release'):
        nat = native_signs(cands, prof, backend)
        for c, n in zip(cands, nat):
            exp = exact_ref_sign(c)
            if n is None or n != exp:
                path = engine.save_replay(pid, {'kind': 'insphere_exact', 'points': c, 'expected_sign': exp, 'native': n, 'profile': prof, 'backend': backend})
                run.violation('%s: in_sphere_test_exact returns %r, sign of the lifted determinant is %d at %r (%s build, backend %s)' % (what, n, exp, c, prof, backend), path)
                reproduced = True
                break
        if reproduced:
            break
    if not reproduced:
        run.inconclusive.append('%s: the determinant polynomial differs from the reference but no sign disagreement reproduced natively within the search caps (a sign-preserving rewrite is not a violation)' % what)


def replay_file(path):
    d = json.load(open(path))
    c = d['points']
    n = native_signs([c], d.get('profile', 'debug'), d.get('backend', 'ibig'))[0]
    exp = exact_ref_sign(c)
    print('native=%r expected=%d' % (n, exp))
    return 1 if n != exp else 0
