"""Obligations about the per-cell build closures, the face-integral loops and the 1D/2D box normalisation,
taken from the MIR of voronoi.rs / convex_cell.rs (shared by C07, C08, C13, C14, C12)."""
import json
import re
from fractions import Fraction

import z3

from mirsym import engine
from mirsym.engine import Inconclusive
from mirsym.interp import Agg, Var, Ref, State, SymArr, Opaque, UNIT, to_z3, is_z3, Unsupported
from mirsym.models import list_iter, list_next
from .common import rvec, none, some, hyps_of
from . import facerule as FR


def rec(tag, ret=None):
    """override that records its arguments"""
    def f(i, st, a, c):
        st.events.append((tag, list(a)))
        return ret if ret is not None else Opaque(tag)
    return f


def pcs(st):
    return [c for c in st.pc if not isinstance(c, bool)]


def same_ref(a, b):
    return isinstance(a, Ref) and isinstance(b, Ref) and a.base == b.base and a.path == b.path and a.win == b.win


# ------------------------------------------------------------------------------------------------ build closures

def closure_captures(f, names):
    return FR.capture_order(f, names)


def direct_build_closure(run, funcs, pid, periodic, mask_some):
    """Voronoi::build_voronoi_cells::{closure#1}: (idx, faces) -> VoronoiCell"""
    name = engine.find_fn(funcs, r'voronoi::<impl at src/voronoi.rs:\d+:\d+: \d+:\d+>::build_voronoi_cells::\{closure#1\}$')
    f = funcs[name]
    caps = closure_captures(f, ['mask', 'generators', 'periodic', 'rtree', 'width', 'dimensionality', 'simulation_volume'])
    idx = z3.Int('idx')
    nmask = z3.Int('nmask')
    maskf = z3.Function('mask', z3.IntSort(), z3.BoolSort())
    ngen = 3
    gens = [FR.engine.make_struct('src/voronoi/generator.rs', 'Generator', loc=rvec('g%d' % k), id=k) for k in range(ngen)]
    interp = engine.new_interp(funcs, overrides={
        'convex_cell::ConvexCell::build': rec('cell_build', Agg('BuiltCell', ())),
        'wrapping_nn_iter': rec('wrapping_nn_iter', Opaque('wnn')),
        'nn_iter': rec('nn_iter', Opaque('nn')),
        'VoronoiCell::from_convex_cell': rec('from_convex_cell', Agg('BuiltVoronoiCell', ())),
    })
    st = State()
    pre = [idx >= 0, idx < ngen, nmask == ngen]
    st.pc.extend(pre)
    st.heap[1] = SymArr(maskf, nmask)
    st.heap[2] = some(Ref(('H', 1))) if mask_some else none()
    st.heap[3] = Agg('Vec', gens)
    st.heap[4] = periodic
    st.heap[5] = Opaque('rtree')
    width = rvec('width')
    st.heap[6] = width
    st.heap[7] = FR.dimv('ThreeD')
    st.heap[8] = Opaque('simulation_volume')
    st.heap[9] = Agg('Vec', (Agg('FaceMarker', ()),))       # the cell's own face vector (must stay untouched unless constructed)
    # every capture of the closure as the compiler lists it (debug info): the known ones get the harness values, any further capture a
    # symbolic value of its own (a vector for names that look like positions / extents, otherwise an opaque value)
    allcaps = {}
    for nm_, txt_ in f.debug.items():
        mm_ = re.search(r'\(\*?_1\)?\.(\d+)', txt_) or re.search(r'_1\.(\d+)', txt_)
        if mm_:
            allcaps[nm_] = int(mm_.group(1))
    ncap = max(list(allcaps.values()) + list(caps.values())) + 1
    capv = [None] * ncap
    for nm, h in (('mask', 2), ('generators', 3), ('periodic', 4), ('rtree', 5), ('width', 6), ('dimensionality', 7), ('simulation_volume', 8)):
        capv[caps[nm]] = Ref(('H', h))
    hx = 40
    for nm_, k_ in allcaps.items():
        if capv[k_] is None:
            st.heap[hx] = rvec('cap_' + nm_) if re.search(r'anchor|width|loc|origin|offset|shift', nm_) else Opaque('cap_' + nm_)
            capv[k_] = Ref(('H', hx))
            hx += 1
    st.heap[10] = Agg('closure', capv)
    outs = interp.exec_fn(st, name, [Ref(('H', 10)), Agg('tuple', (idx, Ref(('H', 9))))], {})
    run.add_functions(interp, funcs)
    return dict(outs=outs, idx=idx, mask=maskf, pre=pre, gens=gens, width=width, interp=interp)


def check_direct_build_closure(run, funcs, pid):
    vc = lambda nm: engine.field_index('src/voronoi/voronoi_cell.rs', 'VoronoiCell', nm)
    for periodic in (False, True):
        for mask_some in (False, True):
            r = direct_build_closure(run, funcs, pid, periodic, mask_some)
            idx = r['idx']
            tagc = 'direct build closure [periodic=%s, mask=%s]' % (periodic, 'Some' if mask_some else 'None')
            active = r['mask'](idx) if mask_some else z3.BoolVal(True)
            for pc, msg, pst in r['interp'].panics:
                run.prove('%s %s: no panic (%s)' % (pid, tagc, msg[:40]), list(pc), True, timeout=20, cross=False)
            for st, v in r['outs']:
                ev = {e[0]: e[1] for e in st.events}
                H = pcs(st)
                if 'cell_build' in ev:
                    run.prove('%s %s: a cell is constructed only if it is selected' % (pid, tagc), H, z3.Not(active), timeout=20, cross=False)
                    loc, bidx, gslice, nn, simvol = ev['cell_build']
                    # arguments of ConvexCell::build: own generator position, own index, all generators, the neighbour iterator built from
                    # (rtree, loc[, width, dim]) and the simulation volume - the mask does not occur
                    gl = [merge_loc(r['gens'], idx, k) for k in range(3)]
                    conds = [to_z3(bidx) == idx] + [to_z3(a) == b for a, b in zip(loc.items, gl)]
                    run.prove('%s %s: ConvexCell::build gets loc = generators[idx].loc and the cell\'s own index' % (pid, tagc), H,
                              z3.Not(z3.And(conds)), timeout=20, cross=False)
                    nnargs = ev.get('wrapping_nn_iter' if periodic else 'nn_iter')
                    if nnargs is None or ('nn_iter' if periodic else 'wrapping_nn_iter') in ev:
                        run.suspect.append('%s %s: wrong neighbour iterator for periodic=%s' % (pid, tagc, periodic))
                    else:
                        okq = z3.And([to_z3(a) == b for a, b in zip(nnargs[1].items, gl)])
                        vq, mq = run.prove('%s %s: the neighbour search is centred on the generator' % (pid, tagc), H, z3.Not(okq), timeout=20, cross=False, on_sat='caller')
                        if vq == 'sat':
                            from . import oracle as OR
                            what = '%s %s: the neighbour search is not centred on the position the cell is built at' % (pid, tagc)
                            extra = []
                            for d_ in (3, 2, 1):
                                extra += (OR.upper_wall_periodic_scenarios(d_) if periodic else []) + OR.wall_scenarios(d_, periodic) + OR.pair_scenarios(d_, periodic)
                            if not OR.confirm_family(pid, run, what, 3, periodic, None, (0, 1), extra=extra):
                                run.suspect.append(what + ' - no public-API scenario shows a difference')
                        if periodic:
                            okw = z3.And([to_z3(a) == to_z3(b) for a, b in zip(nnargs[2].items, r['width'].items)])
                            run.prove('%s %s: the period handed to the search is the box width' % (pid, tagc), H, z3.Not(okw), timeout=20, cross=False)
                    for a in ev['cell_build']:
                        if mentions_mask(a):
                            run.suspect.append('%s %s: the mask reaches ConvexCell::build' % (pid, tagc))
                    fargs = ev.get('from_convex_cell')
                    if fargs is None:
                        run.suspect.append('%s %s: constructed cell is not converted' % (pid, tagc))
                    else:
                        m_ok = (fargs[2].name == ('Some' if mask_some else 'None'))
                        if not m_ok or not same_ref(fargs[1], Ref(('H', 9))):
                            run.suspect.append('%s %s: from_convex_cell does not receive the cell\'s own face vector / the mask' % (pid, tagc))
                else:
                    run.prove('%s %s: a selected cell is always constructed' % (pid, tagc), H, active, timeout=20, cross=False)
                    # unconstructed: zero volume and centroid, own index, faces untouched
                    if not (isinstance(v, Agg) and v.tag == 'VoronoiCell'):
                        run.suspect.append('%s %s: unselected path returns %r' % (pid, tagc, v))
                        continue
                    conds = [to_z3(v.items[vc('idx')]) == idx, to_z3(v.items[vc('volume')]) == 0, to_z3(v.items[vc('face_count')]) == 0]
                    conds += [to_z3(x) == 0 for x in v.items[vc('centroid')].items]
                    vv, m = run.prove('%s %s: unselected cell = zero volume/centroid and its own generator index' % (pid, tagc), H,
                                      z3.Not(z3.And(conds)), timeout=20, on_sat='caller')
                    if vv == 'sat':
                        report_unconstructed(run, pid, '%s %s' % (pid, tagc), 'direct', int(engine.model_value(m, idx)))
                    if len(st.heap[9].items) != 1:
                        run.suspect.append('%s %s: faces of an unselected cell were modified' % (pid, tagc))


def merge_loc(gens, idx, k):
    """generators[idx].loc[k] as an ite over the concrete generator list"""
    locf = engine.field_index('src/voronoi/generator.rs', 'Generator', 'loc')
    e = to_z3(gens[-1].items[locf].items[k])
    for g in range(len(gens) - 2, -1, -1):
        e = z3.If(idx == g, to_z3(gens[g].items[locf].items[k]), e)
    return e


def mentions_mask(v):
    return 'mask' in repr(v)


def report_unconstructed(run, pid, what, route, i):
    """native: 3 generators on a line, only cell (i+1)%3 ... constructed such that cell i is unconstructed and has a face
    from a constructed neighbour; neighbour_ids of the unconstructed cell must not contain the cell itself"""
    p = {'kind': 'unconstructed_idx', 'route': route, 'cell': max(1, i)}
    bad = check_unconstructed_native(p)
    if bad:
        path = engine.save_replay(pid, p)
        run.violation('%s: %s' % (what, bad), path)
    else:
        run.suspect.append('%s: counterexample does not reproduce natively' % what)


def check_unconstructed_native(p, profile='debug'):
    # generators on a line, mask [true,false,false]: cell 1 is unconstructed and neighbours cell 0
    cmd = 'build 3 0 0 0 0 1 1 1 1 3 0.2 0.5 0.5 1 0.5 0.5 0.5 0 0.8 0.5 0.5 0'
    if p.get('route') == 'integrator':
        cmd = 'build_via_integrator 3 0 0 0 0 1 1 1 1 3 0.2 0.5 0.5 1 0.5 0.5 0.5 0 0.8 0.5 0.5 0'
    o = engine.native([cmd], profile)[0]
    if o[0] != 'ok':
        return 'native build panicked: ' + ' '.join(o[1:8])
    txt = ' '.join(o[1:])
    cells = txt.split('||')[0].split('|')[1:]
    for c in cells:
        toks = c.split()
        cid = int(toks[0])
        ngb = [int(x) for x in toks[toks.index('ngb') + 1:]]
        if cid in ngb:
            return 'cell %d lists itself as neighbour (neighbour_ids = %r)' % (cid, ngb)
        vol = float(toks[1])
        if cid != 0 and vol != 0.0:
            return 'unselected cell %d has volume %g' % (cid, vol)
    if '1 ngb 0' not in ' '.join(cells[1].split()[-4:]) and 'ngb 0' not in cells[1]:
        return 'unconstructed cell 1 does not report its constructed neighbour 0'
    return None


def check_integrator_closures(run, funcs, pid):
    """VoronoiIntegrator::build::{closure#2} and VoronoiIntegrator::build_voronoi_cells::{closure#0}"""
    # ---- build::{closure#2}: (idx, &Generator) -> Option<ConvexCell>
    name = engine.find_fn(funcs, r'voronoi::<impl at src/voronoi.rs:\d+:\d+: \d+:\d+>::build::\{closure#2\}$')
    f = funcs[name]
    caps = closure_captures(f, ['cell_is_active', 'periodic', 'rtree', 'width', 'dimensionality', 'generators', 'simulation_volume'])
    for periodic in (False, True):
        idx = z3.Int('idx')
        act = [z3.Bool('act%d' % k) for k in range(3)]
        interp = engine.new_interp(funcs, overrides={
            'convex_cell::ConvexCell::build': rec('cell_build', Agg('BuiltCell', ())),
            'wrapping_nn_iter': rec('wrapping_nn_iter', Opaque('wnn')),
            'nn_iter': rec('nn_iter', Opaque('nn')),
        })
        st = State()
        pre = [idx >= 0, idx < 3]
        st.pc.extend(pre)
        gen = engine.make_struct('src/voronoi/generator.rs', 'Generator', loc=rvec('g'), id=idx)
        st.heap[1] = Agg('Vec', act)
        st.heap[2] = periodic
        st.heap[3] = Opaque('rtree')
        st.heap[4] = rvec('width')
        st.heap[5] = FR.dimv('ThreeD')
        st.heap[6] = Agg('Vec', (gen,))
        st.heap[7] = Opaque('simvol')
        st.heap[8] = gen
        capv = [None] * 7
        for nm, h in (('cell_is_active', 1), ('periodic', 2), ('rtree', 3), ('width', 4), ('dimensionality', 5), ('generators', 6), ('simulation_volume', 7)):
            capv[caps[nm]] = Ref(('H', h))
        st.heap[9] = Agg('closure', capv)
        outs = interp.exec_fn(st, name, [Ref(('H', 9)), Agg('tuple', (idx, Ref(('H', 8))))], {})
        run.add_functions(interp, funcs)
        active = z3.If(idx == 0, act[0], z3.If(idx == 1, act[1], act[2]))
        for st2, v in outs:
            ev = {e[0]: e[1] for e in st2.events}
            H = pcs(st2)
            t = 'integrator build closure [periodic=%s]' % periodic
            if v.name == 'Some':
                run.prove('%s %s: Some(cell) only for selected generators' % (pid, t), H, z3.Not(active), timeout=20, cross=False)
                loc, bidx = ev['cell_build'][0], ev['cell_build'][1]
                conds = [to_z3(bidx) == idx] + [to_z3(a) == to_z3(b) for a, b in zip(loc.items, gen.items[0].items)]
                run.prove('%s %s: ConvexCell::build gets the generator\'s position and index' % (pid, t), H, z3.Not(z3.And(conds)), timeout=20, cross=False)
                if ('wrapping_nn_iter' in ev) != periodic:
                    run.suspect.append('%s %s: wrong neighbour iterator' % (pid, t))
            else:
                run.prove('%s %s: None only for unselected generators' % (pid, t), H, active, timeout=20, cross=False)
                if 'cell_build' in ev:
                    run.suspect.append('%s %s: unselected generator constructed' % (pid, t))
    # ---- build_voronoi_cells::{closure#0}: (idx, (&Option<ConvexCell>, &mut Vec<VoronoiFace>)) -> VoronoiCell
    name = engine.find_fn_where(funcs, r'voronoi::<impl at src/voronoi.rs:\d+:\d+: \d+:\d+>::build_voronoi_cells::\{closure#0\}$', 'Option<convex_cell::ConvexCell')
    vc = lambda nm: engine.field_index('src/voronoi/voronoi_cell.rs', 'VoronoiCell', nm)
    for cell_some in (False, True):
        idx = z3.Int('idx')
        interp = engine.new_interp(funcs, overrides={'VoronoiCell::from_convex_cell': rec('from_convex_cell', Agg('BuiltVoronoiCell', ()))})
        st = State()
        st.pc.append(idx >= 0)
        integ = engine.make_struct('src/voronoi.rs', 'VoronoiIntegrator', cells=Opaque('cells'), cell_is_active=Agg('Vec', (z3.Bool('a0'), z3.Bool('a1'))),
                                   anchor=rvec('anchor'), width=rvec('width'), dimensionality=FR.dimv('ThreeD'), periodic=False)
        st.heap[1] = integ
        st.heap[2] = Agg('closure', (Ref(('H', 1)),))
        st.heap[3] = some(Agg('TheCell', ())) if cell_some else none()
        st.heap[4] = Agg('Vec', (Agg('FaceMarker', ()),))
        outs = interp.exec_fn(st, name, [Ref(('H', 2)), Agg('tuple', (idx, Agg('tuple', (Ref(('H', 3)), Ref(('H', 4))))))], {'M': 'WithoutFaces'})
        run.add_functions(interp, funcs)
        for st2, v in outs:
            ev = {e[0]: e[1] for e in st2.events}
            t = 'integrator->Voronoi closure [cell=%s]' % ('Some' if cell_some else 'None')
            if cell_some:
                fa = ev.get('from_convex_cell')
                aidx = engine.field_index('src/voronoi.rs', 'VoronoiIntegrator', 'cell_is_active')
                ok = fa is not None and same_ref(fa[1], Ref(('H', 4))) and fa[2].name == 'Some' and isinstance(fa[2].items[0], Ref) \
                    and fa[2].items[0].base == ('H', 1) and fa[2].items[0].path == (aidx,)
                if not ok:
                    run.suspect.append('%s %s: from_convex_cell must get the cell, its own face vector and Some(cell_is_active)' % (pid, t))
                run.obligations.append({'name': '%s %s: conversion receives (cell, own faces, Some(cell_is_active))' % (pid, t), 'expect': 'unsat',
                                        'verdict': 'unsat' if ok else 'sat', 'solver': 'structural (references compared)', 'solver_s': 0.0})
            else:
                if 'from_convex_cell' in ev or len(st2.heap[4].items) != 1:
                    run.suspect.append('%s %s: unconstructed cell produced faces' % (pid, t))
                conds = [to_z3(v.items[vc('idx')]) == idx, to_z3(v.items[vc('volume')]) == 0] + [to_z3(x) == 0 for x in v.items[vc('centroid')].items]
                vv, m = run.prove('%s %s: unconstructed cell = zero volume/centroid and its own generator index' % (pid, t), pcs(st2),
                                  z3.Not(z3.And(conds)), timeout=20, on_sat='caller')
                if vv == 'sat':
                    report_unconstructed(run, pid, '%s %s' % (pid, t), 'integrator', int(engine.model_value(m, idx)))


def check_build_partial_passes_mask(run, funcs, pid):
    """Voronoi::build_partial hands Some(mask) - the caller's mask, unchanged - to build_internal; Voronoi::build hands None"""
    name = engine.find_fn(funcs, r'voronoi::<impl at src/voronoi.rs:\d+:\d+: \d+:\d+>::build_partial$')
    bits = [z3.Bool('m%d' % k) for k in range(3)]
    interp = engine.new_interp(funcs, overrides={'Voronoi::build_internal': rec('build_internal', Opaque('voronoi'))})
    st = State()
    st.heap[1] = Agg('array', (rvec('g0'), rvec('g1'), rvec('g2')))
    st.heap[2] = Agg('array', bits)
    outs = interp.exec_fn(st, name, [Ref(('H', 1)), Ref(('H', 2)), rvec('anchor'), rvec('width'), FR.dimv('ThreeD'), False], {})
    run.add_functions(interp, funcs)
    run.bound('build_partial: mask of length 3 with symbolic entries (all 2^3 masks)')
    for st2, v in outs:
        ev = [e for e in st2.events if e[0] == 'build_internal']
        H = pcs(st2)
        ok = len(ev) == 1 and ev[0][1][1].name == 'Some' and same_ref(ev[0][1][1].items[0], Ref(('H', 2))) and same_ref(ev[0][1][0], Ref(('H', 1)))
        if ok:
            run.obligations.append({'name': '%s build_partial forwards Some(mask) and the generators unchanged' % pid, 'expect': 'unsat', 'verdict': 'unsat',
                                    'solver': 'structural (references compared)', 'solver_s': 0.0})
            continue
        # some path drops or replaces the mask: is that path feasible?  (solver decides; then native replay)
        vv, m = run.prove('%s build_partial: path that does not forward the caller\'s mask is infeasible' % pid, H, True, timeout=20, on_sat='caller')
        if vv == 'sat':
            mask = [bool(engine.model_value(m, b)) for b in bits]
            p = {'kind': 'partial_mask', 'mask': mask}
            bad = check_partial_mask_native(p)
            if bad:
                run.violation('%s build_partial with mask %r: %s' % (pid, mask, bad), engine.save_replay(pid, p))
            else:
                run.suspect.append('%s build_partial drops the mask on a feasible path (mask %r) but the native run shows no difference' % (pid, mask))
    name = [n for n in funcs if n.endswith('::build') and 'voronoi.rs' in n and funcs[n].ret_ty == 'Voronoi'][0]
    interp = engine.new_interp(funcs, overrides={'Voronoi::build_internal': rec('build_internal', Opaque('voronoi'))})
    st = State()
    st.heap[1] = Agg('array', (rvec('g0'),))
    outs = interp.exec_fn(st, name, [Ref(('H', 1)), rvec('anchor'), rvec('width'), FR.dimv('ThreeD'), False], {})
    for st2, v in outs:
        ev = [e for e in st2.events if e[0] == 'build_internal']
        if not (len(ev) == 1 and ev[0][1][1].name == 'None'):
            run.suspect.append('%s Voronoi::build does not pass mask = None' % pid)


def check_mask_flow(run, funcs, pid):
    """Voronoi::build_internal hands the caller's mask and generators to build_voronoi_cells as they are (no entry added, dropped or rewritten
    on the way - whatever the generator positions, also on walls): 3 generators with symbolic positions and mask bits"""
    name = engine.find_fn(funcs, r'voronoi::<impl at src/voronoi.rs:\d+:\d+: \d+:\d+>::build_internal$')
    bits = [z3.Bool('mf%d' % k) for k in range(3)]
    gens = [rvec('mg%d' % k) for k in range(3)]
    anchor, width = rvec('anchor'), rvec('width')

    def stop_bvc(i, st, a, c):
        st.events.append(('build_voronoi_cells', list(a)))
        i.stopped.append(st)
        return []
    for dim in FR.DIMS:
        ov = {'build_rtree': lambda i, st, a, c: Opaque('rtree'), 'Voronoi::build_voronoi_cells': stop_bvc}
        interp = engine.new_interp(funcs, overrides=ov, max_paths=4000)
        interp.stopped = []
        st = State()
        st.heap[1] = Agg('array', gens)
        st.heap[2] = Agg('array', bits)
        st.pc.extend([to_z3(w) > 0 for w in width.items])
        try:
            interp.exec_fn(st, name, [Ref(('H', 1)), some(Ref(('H', 2))), anchor, width, FR.dimv(dim), z3.Bool('periodic')], {})
        except Unsupported as e:
            if not interp.stopped:
                raise
        run.add_functions(interp, funcs)
        if not interp.stopped:
            raise Inconclusive('build_internal: build_voronoi_cells not reached')
        for k, s in enumerate(interp.stopped):
            a = [e for e in s.events if e[0] == 'build_voronoi_cells'][-1][1]
            g_arg, m_arg = a[0], a[2]
            ok_g = same_ref(g_arg, Ref(('H', 1)))
            conds = []
            ok_m = False
            if isinstance(m_arg, Var) and m_arg.name == 'Some':
                r = m_arg.items[0]
                if same_ref(r, Ref(('H', 2))):
                    ok_m = True
                else:
                    try:
                        v = interp.deref_read(s, r)
                        items = list(v.items)
                        if isinstance(r, Ref) and r.win is not None:
                            items = items[r.win[0]:r.win[0] + r.win[1]]
                        if len(items) == 3:
                            ok_m = True
                            conds = [to_z3(x) == b if is_z3(x) else (b if x else z3.Not(b)) for x, b in zip(items, bits)]
                    except Exception:
                        ok_m = False
            if ok_g and ok_m and not conds:
                run.obligations.append({'name': '%s build_internal[%s] path %d: build_voronoi_cells receives the caller\'s generators and mask unchanged' % (pid, dim, k),
                                        'expect': 'unsat', 'verdict': 'unsat', 'solver': 'structural (references compared)', 'solver_s': 0.0})
                continue
            goal = z3.And([z3.BoolVal(ok_g and ok_m)] + conds)
            vv, m = run.prove('%s build_internal[%s] path %d: the mask that reaches build_voronoi_cells equals the caller\'s mask entry by entry' % (pid, dim, k), pcs(s), z3.Not(goal),
                              timeout=30, on_sat='caller')
            if vv == 'sat':
                from . import oracle as OR
                d_ = {'OneD': 1, 'TwoD': 2, 'ThreeD': 3}[dim]
                mask = [bool(engine.model_value(m, b)) for b in bits]
                what = '%s build_internal[%s]: the mask is altered before the cells are built (caller\'s mask %r)' % (pid, dim, mask)
                extra = []
                for per in (False, True):
                    for mk in ([True, True, True], [True, False, True], mask):
                        extra += OR.wall_scenarios(d_, per, mask=mk)
                if not OR.confirm_family(pid, run, what, d_, False, mask, (0, 1), pids=('C07', 'C12', 'C03'), extra=extra):
                    run.suspect.append(what + ' - no public-API scenario (also generators on walls) shows a difference')
                return
    run.bound('mask flow through build_internal: 3 generators with symbolic positions, symbolic mask bits, symbolic box')


def check_partial_mask_native(p, profile='debug'):
    mask = p['mask']
    locs = [(0.2, 0.3, 0.5), (0.5, 0.6, 0.4), (0.8, 0.4, 0.6)]
    cmd = 'build 3 0 0 0 0 1 1 1 1 3 ' + ' '.join('%g %g %g %d' % (l[0], l[1], l[2], 1 if b else 0) for l, b in zip(locs, mask))
    o = engine.native([cmd], profile)[0]
    if o[0] != 'ok':
        return 'native build panicked'
    txt = ' '.join(o[1:])
    cells = txt.split('||')[0].split('|')[1:]
    for c, b in zip(cells, mask):
        vol = float(c.split()[1])
        if b and vol <= 0:
            return 'selected cell %s has volume %g' % (c.split()[0], vol)
        if not b and vol != 0:
            return 'unselected cell %s has volume %g (mask %r)' % (c.split()[0], vol, mask)
    faces = txt.split('||')[1].split('|')[1:]
    for fc in faces:
        left = int(fc.split()[0])
        if not mask[left]:
            return 'a face has the unselected left cell %d' % left
    return None


# ------------------------------------------------------------------------------------------------ face integral loops

def tet(plane_idx, k):
    return engine.make_struct('src/voronoi/convex_cell.rs', 'ConvexCellTet', plane_idx=plane_idx,
                              vertices=Agg('array', (rvec('t%da' % k), rvec('t%db' % k), rvec('t%dc' % k))))


def run_face_loop(run, funcs, sym, labels, tets, dim='ThreeD', mask_len=None, data=None):
    """compute_face_integrals(_sym) on a cell whose planes carry `labels` [(right Option, shift Option, normal)], with the
    decomposition replaced by the harness list `tets` (plane indices).  The integral type is a recorder."""
    idx = z3.Int('idx')
    planes = [FR.half_space(n, rvec('pp%d' % k), r, s) for k, (r, s, n) in enumerate(labels)]
    cell = FR.convex_cell(idx, rvec('loc'), planes, dim)
    tl = [tet(p, k) for k, p in enumerate(tets)]

    def init_with_data(i, st, a, c):
        st.events.append(('init', a[1], a[2]))
        return Agg('RecI', (a[1], a[2], 0))

    def collect(i, st, a, c):
        cur = i.deref_read(st, a[0])
        i.deref_write(st, a[0], Agg('RecI', (cur.items[0], cur.items[1], cur.items[2] + 1)))
        st.events.append(('collect', cur.items[0], list(a[1:])))
        return UNIT

    def finalize(i, st, a, c):
        return Agg('RecI', tuple(a[0].items) + ('finalized',))

    ov = {
        'convex_cell::ConvexCell::decompose': lambda i, st, a, c: list_iter(tl),
        '<ConvexCellDecomposition as IntoIterator>::into_iter': lambda i, st, a, c: a[0],
        '<ConvexCellDecomposition as Iterator>::next': list_next,
        '<I as FaceIntegralWithData>::init_with_data': init_with_data,
        '<I as FaceIntegral>::collect': collect,
        '<I as FaceIntegral>::finalize': finalize,
    }
    pat = r'::compute_face_integrals_sym$' if sym else r'::compute_face_integrals$'
    name = engine.find_fn(funcs, r'convex_cell::<impl at [^>]*>' + pat)
    interp = engine.new_interp(funcs, overrides=ov)
    st = State()
    maskf = z3.Function('mask', z3.IntSort(), z3.BoolSort())
    nmask = z3.Int('nmask')
    pre = [idx >= 0, nmask > idx]
    for (r, s, n) in labels:
        if r.name == 'Some' and is_z3(r.items[0]):
            pre += [r.items[0] >= 0, nmask > r.items[0], r.items[0] != idx]
    st.pc.extend(pre)
    st.heap[1] = cell
    st.heap[2] = SymArr(maskf, nmask)
    d = data if data is not None else UNIT
    args = [Ref(('H', 1)), d] + ([Ref(('H', 2))] if sym else [])
    outs = interp.exec_fn(st, name, args, {'M': 'WithoutFaces', 'I': 'RecI', 'D': '()'})
    run.add_functions(interp, funcs)
    return dict(outs=outs, idx=idx, mask=maskf, pre=pre, interp=interp, planes=planes)


def result_faces(v):
    """[(left, right, shift, plane, data, ncollect, finalized)] of a returned Vec<FaceIntegrator<RecI>>"""
    fi = lambda f, nm: f.items[engine.field_index('src/voronoi/integrals.rs', 'FaceIntegrator', nm)]
    out = []
    for f in v.items:
        integ = fi(f, 'integral')
        out.append((fi(f, 'left'), fi(f, 'right'), fi(f, 'shift'), integ.items[0], integ.items[1], integ.items[2], len(integ.items) > 3))
    return out


def check_face_loops(run, funcs, pid):
    """sym = non-sym minus the faces already reported by a constructed lower-index neighbour without shift; plane order; labels;
    every tetrahedron goes to the integrator of its own plane exactly once"""
    j = z3.Int('j')
    sh = rvec('shift')
    tets = [0, 1, 0, 2, 1]
    for dim in FR.DIMS:
        for right_some, shift_some in ((True, False), (True, True), (False, False)):
            n0 = rvec('n0')
            labels = [(some(j) if right_some else none(), some(sh) if shift_some else none(), n0),
                      (none(), none(), Agg('DVec3', [Fraction(1), Fraction(0), Fraction(0)])),
                      (some(j), none(), Agg('DVec3', [Fraction(0), Fraction(0), Fraction(1)]))]
            valid = [FR.valid_dim(dim, n0), z3.BoolVal(True), z3.BoolVal(dim == 'ThreeD')]
            res = {}
            for sym in (False, True):
                r = run_face_loop(run, funcs, sym, labels, tets, dim)
                res[sym] = r
                for pc, msg, pst in r['interp'].panics:
                    run.prove('%s face loop: no panic (%s)' % (pid, msg[:40]), list(pc), True, timeout=20, cross=False)
                present = [[], [], []]
                for st, v in r['outs']:
                    faces = result_faces(v)
                    order = [f[3] for f in faces]
                    if order != sorted(order) or len(set(order)) != len(order):
                        run.suspect.append('%s face loop (sym=%s): results not in plane order: %r' % (pid, sym, order))
                    for (left, right, shift, plane, data, ncol, fin) in faces:
                        present[plane].append(z3.And(pcs(st) + [z3.BoolVal(True)]))
                        exp_r, exp_s, _ = labels[plane]
                        want = tets.count(plane)
                        if right.name != exp_r.name or shift.name != exp_s.name or not fin or ncol != want:
                            run.suspect.append('%s face loop (sym=%s): plane %d result has wrong labels / %d of %d tetrahedra / finalize missing' % (pid, sym, plane, ncol, want))
                        run.prove('%s face loop[%s,sym=%s]: plane %d integrator has left = cell index' % (pid, dim, sym, plane), pcs(st),
                                  z3.Not(to_z3(left) == r['idx']), timeout=10, cross=False)
                    # every collect event went to the integrator that was initialised for that tetrahedron's plane, in stream order
                    col = [e for e in st.events if e[0] == 'collect']
                    seq = [e[1] for e in col]
                    made = {f[3] for f in faces}
                    if seq != [p for p in tets if p in made]:
                        run.suspect.append('%s face loop (sym=%s): tetrahedra delivered as %r, expected %r' % (pid, sym, seq, [p for p in tets if p in made]))
                r['present'] = [z3.Or(p) if p else z3.BoolVal(False) for p in present]
            ns, sy = res[False], res[True]
            # idx / j / mask are the same z3 symbols in both runs
            for plane in range(3):
                exp_r, exp_s, _ = labels[plane]
                skip = z3.BoolVal(False)
                if exp_r.name == 'Some' and exp_s.name == 'None':
                    skip = z3.And(j < ns['idx'], ns['mask'](j))
                vv0, m0 = run.prove('%s face loop[%s]: non-symmetric variant reports plane %d iff its normal is in the active subspace' % (pid, dim, plane),
                                    ns['pre'], z3.Not(ns['present'][plane] == valid[plane]), timeout=20, cross=False, on_sat='caller')
                vv1, m1 = run.prove('%s face loop[%s]: symmetric variant reports plane %d only if its normal is in the active subspace' % (pid, dim, plane),
                                    ns['pre'] + [z3.Not(valid[plane])], sy['present'][plane], timeout=20, cross=False, on_sat='caller')
                for vvx, mx in ((vv0, m0), (vv1, m1)):
                    if vvx == 'sat':
                        _replay_loop_model(run, pid, mx, ns, j, dim, exp_r, exp_s, labels[plane][2])
                vv, m = run.prove('%s face loop[%s, right=%s, shift=%s]: symmetric = non-symmetric minus faces of a constructed lower-index unshifted neighbour (plane %d)'
                                  % (pid, dim, exp_r.name, exp_s.name, plane), ns['pre'],
                                  z3.Not(sy['present'][plane] == z3.And(ns['present'][plane], z3.Not(skip))), timeout=20, on_sat='caller')
                if vv == 'sat':
                    _replay_loop_model(run, pid, m, ns, j, dim, exp_r, exp_s, labels[plane][2])
    structural = [x for x in run.suspect if x.startswith('%s face loop' % pid)]
    if structural:
        for prof in ('debug', 'release'):
            bad = check_face_loops_native({'kind': 'face_loops'}, prof)
            if bad:
                run.violation('%s face-integral loops: %s (%s build)' % (pid, bad, prof), engine.save_replay(pid, {'kind': 'face_loops', 'profile': prof}))
                run.suspect[:] = [x for x in run.suspect if x not in structural]
                break
    run.bound('face loops: 3 planes, 5 tetrahedra in the order [0,1,0,2,1]; labels enumerated x symbolic indices/mask')


def check_cell_loop(run, funcs, pid):
    """ConvexCell::compute_cell_integral: EVERY tetrahedron of the decomposition is collected exactly once, in stream order, as
    (v0, v1, v2, generator) - whatever plane it belongs to and in every dimensionality (the dummy planes of 1D / 2D cells carry volume too)"""
    tets = [0, 1, 0, 2, 1]
    for dim in FR.DIMS:
        idx = z3.Int('idx')
        loc = rvec('loc')
        labels = [(none(), none(), rvec('n0')), (none(), none(), Agg('DVec3', [Fraction(0), Fraction(1), Fraction(0)])),
                  (some(z3.Int('j')), none(), Agg('DVec3', [Fraction(0), Fraction(0), Fraction(1)]))]
        planes = [FR.half_space(n, rvec('pp%d' % k), r, s) for k, (r, s, n) in enumerate(labels)]
        cell = FR.convex_cell(idx, loc, planes, dim)
        tl = [tet(p, k) for k, p in enumerate(tets)]

        def init_with_data(i, st, a, c):
            st.events.append(('init', a[1]))
            return Agg('RecC', (0,))

        def collect(i, st, a, c):
            cur = i.deref_read(st, a[0])
            i.deref_write(st, a[0], Agg('RecC', (cur.items[0] + 1,)))
            st.events.append(('collect', list(a[1:])))
            return UNIT

        ov = {'convex_cell::ConvexCell::decompose': lambda i, st, a, c: list_iter(tl),
              '<ConvexCellDecomposition as IntoIterator>::into_iter': lambda i, st, a, c: a[0],
              '<ConvexCellDecomposition as Iterator>::next': list_next,
              '<I as CellIntegralWithData>::init_with_data': init_with_data,
              '<I as CellIntegral>::collect': collect,
              '<I as CellIntegral>::finalize': lambda i, st, a, c: Agg('RecC', tuple(a[0].items) + ('finalized',))}
        name = engine.find_fn(funcs, r'convex_cell::<impl at [^>]*>::compute_cell_integral$')
        interp = engine.new_interp(funcs, overrides=ov)
        st = State()
        st.heap[1] = cell
        outs = interp.exec_fn(st, name, [Ref(('H', 1)), UNIT], {'M': 'WithoutFaces', 'I': 'RecC', 'D': '()'})
        run.add_functions(interp, funcs)
        ok = True
        why = ''
        for s2, v in outs:
            col = [e[1] for e in s2.events if e[0] == 'collect']
            tf = lambda t, nm: t.items[engine.field_index('src/voronoi/convex_cell.rs', 'ConvexCellTet', nm)]
            want = [list(tf(t, 'vertices').items) + [loc] for t in tl]
            same = len(col) == len(want) and all(all(x is y for x, y in zip(c_, w_)) for c_, w_ in zip(col, want))
            if not same or 'finalized' not in v.items or v.items[0] != len(tets):
                ok = False
                why = '%d of %d tetrahedra collected' % (len(col), len(tets))
        if not outs:
            ok, why = False, 'no normal path'
        run.obligations.append({'name': '%s cell loop[%s]: compute_cell_integral collects every tetrahedron of the decomposition once, in order, as (v0, v1, v2, generator) and finalizes (%d paths)'
                                % (pid, dim, len(outs)), 'expect': 'unsat', 'verdict': 'unsat' if ok else 'sat', 'solver': 'path enumeration of the MIR + structural comparison',
                                'solver_s': 0.0})
        if not ok:
            pl = {'kind': 'cell_loop', 'dim': dim}
            bad = check_cell_loop_native(pl)
            if bad:
                run.violation('%s compute_cell_integral[%s]: %s' % (pid, dim, bad), engine.save_replay(pid, pl))
            else:
                run.suspect.append('%s cell loop[%s]: %s in the encoding; native volumes agree' % (pid, dim, why))
    run.bound('cell loop: 3 planes (symbolic / wall / neighbour), 5 tetrahedra in the order [0,1,0,2,1], all three dimensionalities')


def check_cell_loop_native(p, profile='debug'):
    """VolumeIntegral through the public integrator API vs. the measure of the cell (closed form: generators on a line along x)"""
    d = {'OneD': 1, 'TwoD': 2, 'ThreeD': 3}[p['dim']]
    for prof in ('debug', 'release'):
        for dd in sorted({d, 1, 2, 3}):
            for sc in ('1', '1e-6', '1e-9', '1e5'):
                o = engine.native(['cell_volumes %d %s' % (dd, sc)], prof)[0]
                if o[0] != 'ok':
                    return 'native scenario panicked: ' + ' '.join(o[1:10])
                vals = [float(x) for x in o[1:]]
                n = len(vals) // 2
                for k in range(n):
                    if abs(vals[k] - vals[n + k]) > 1e-9 * abs(vals[n + k]):
                        return '%dD, length scale %s, cell %d: compute_cell_integrals::<VolumeIntegral> gives %r, the cell measure is %r [%s build]' % (dd, sc, k, vals[k], vals[n + k], prof)
    return None


def _replay_loop_model(run, pid, m, ns, j, dim, exp_r, exp_s, normal):
    """native replay of a face-loop counterexample: labels, mask bits and the plane normal of the model through the real loops"""
    i_ = int(engine.model_value(m, ns['idx']))
    j_ = int(engine.model_value(m, j))
    if max(i_, j_) > 40:
        bi, bj = bool(engine.model_value(m, ns['mask'](i_))), bool(engine.model_value(m, ns['mask'](j_)))
        i2, j2 = (0, 1) if i_ < j_ else (1, 0)
        mask = [bi, bj] if i2 == 0 else [bj, bi]
        i_, j_ = i2, j2
    else:
        mask = [bool(engine.model_value(m, ns['mask'](k))) for k in range(max(i_, j_) + 1)]
    nrm = [float(engine.model_value(m, to_z3(x))) if is_z3(x) else float(x) for x in normal.items]
    p = {'kind': 'sym_loop', 'idx': i_, 'j': j_, 'mask': mask, 'dim': dim, 'right_some': exp_r.name == 'Some', 'shift_some': exp_s.name == 'Some', 'normal': nrm}
    if any(x.get('kind') == 'sym_loop' and x.get('idx') == i_ and x.get('j') == j_ and x.get('mask') == mask and x.get('normal') == nrm and x.get('dim') == dim
           and x.get('right_some') == p['right_some'] and x.get('shift_some') == p['shift_some'] for x in getattr(run, '_loop_replays', [])):
        return
    run._loop_replays = getattr(run, '_loop_replays', []) + [p]
    bad = check_sym_loop_native(p)
    if bad:
        run.violation('%s face-integral loops: %s (cell %d, neighbour %d, mask %r, normal %r, %s)' % (pid, bad, i_, j_, mask, nrm, dim), engine.save_replay(pid, p))
    else:
        run.suspect.append('%s face loop: counterexample %r does not reproduce natively' % (pid, p))


def check_face_loops_native(p, profile='debug'):
    """the three face producers of the library on the same cells (4 generators, mask [1,0,1,1]) in 1D/2D/3D, periodic or not:
    the non-symmetric loop must report the same faces (count, total area) as the compact tessellation lists for that cell, and the
    symmetric loop as many faces as the tessellation stores"""
    for dim in (3, 2, 1):
        for per in (0, 1):
            o = engine.native(['face_loops_vs_faces %d %d' % (dim, per)], profile)[0]
            if o[0] != 'ok':
                return 'native run panicked (dim %d, periodic %d): %s' % (dim, per, ' '.join(o[1:8]))
            txt = ' '.join(o[1:])
            cells, tail = txt.split('|')
            t = cells.split()
            for k in range(0, len(t), 5):
                c, nst, ast, nns, ans = int(t[k]), int(t[k + 1]), float(t[k + 2]), int(t[k + 3]), float(t[k + 4])
                if nst != nns or abs(ast - ans) > 1e-9 * max(1.0, ast):
                    return '%dD%s: cell %d has %d faces of total area %.9g in the tessellation but compute_face_integrals reports %d faces of total area %.9g' % (
                        dim, ' periodic' if per else '', c, nst, ast, nns, ans)
            nsy, nfaces = (int(x) for x in tail.split())
            if nsy != nfaces:
                return '%dD%s: compute_face_integrals_sym reports %d faces, the tessellation stores %d' % (dim, ' periodic' if per else '', nsy, nfaces)
    return None


def check_sym_loop_native(p, profile='debug'):
    d = {'OneD': 1, 'TwoD': 2, 'ThreeD': 3}[p['dim']]
    nrm = p.get('normal')
    def plane(right, shift, normal=None):
        return (str(right) if right is not None else '-') + (' 1 1.0 0.0 0.0' if shift else ' 0') + (' 1 %s' % ' '.join(engine.f2s(x) for x in normal) if normal else ' 0')
    pl0 = plane(p['j'] if p['right_some'] else None, p['shift_some'], nrm)
    rest = ' '.join(plane(None, False) for _ in range(3))
    mask = p['mask']
    outs = []
    for sym in (0, 1):
        line = 'face_integrals %d %d %d %s %s %d %s' % (sym, p['idx'], d, pl0, rest, len(mask), ' '.join('1' if b else '0' for b in mask))
        o = engine.native([line], profile)[0]
        if o[0] != 'ok':
            return 'native run panicked'
        toks = o[1:]
        n = int(toks[0]); k = 1; faces = []
        for _ in range(n):
            left = int(toks[k]); k += 1
            r = None if toks[k] == '-' else int(toks[k]); k += 1
            if toks[k] == '1':
                s = True; k += 4
            else:
                s = False; k += 1
            k += 1
            faces.append((left, r, s))
        outs.append(faces)
    ns, sy = outs
    tgt = (p['idx'], p['j'] if p['right_some'] else None, p['shift_some'])
    in_ns = tgt in ns
    in_sy = tgt in sy
    skip = p['right_some'] and not p['shift_some'] and p['j'] < p['idx'] and mask[p['j']]
    if nrm is not None:
        valid = (d == 3) or (d == 2 and nrm[2] == 0) or (d == 1 and nrm[1] == 0 and nrm[2] == 0)
        if in_ns != valid:
            return 'plane with normal %r in %dD: non-symmetric face integrals report it: %s (normal in the active subspace: %s)' % (nrm, d, in_ns, valid)
        if in_sy and not valid:
            return 'plane with normal %r in %dD: symmetric face integrals report a face orthogonal to the active subspace' % (nrm, d)
    if in_sy != (in_ns and not skip):
        return 'plane towards %r: non-symmetric reports it: %s, symmetric reports it: %s, already reported by a constructed lower-index neighbour: %s' % (tgt[1], in_ns, in_sy, skip)
    return None


# ------------------------------------------------------------------------------------------------ box normalisation (C08.b / C13)

def normalisation_prefix(run, funcs, which, dim):
    """run build_internal / VoronoiIntegrator::build until SimulationBoundary::cuboid (resp. build_voronoi_cells) is reached and
    return the (anchor, width) that flow on"""
    anchor, width = rvec('anchor'), rvec('width')
    got = {}

    def stop_cuboid(i, st, a, c):
        st.events.append(('cuboid', list(a)))
        i.stopped.append(st)
        return []

    def stop_bvc(i, st, a, c):
        st.events.append(('build_voronoi_cells', list(a)))
        i.stopped.append(st)
        return []
    ov = {'SimulationBoundary::cuboid': stop_cuboid, 'build_rtree': lambda i, st, a, c: Opaque('rtree'),
          'Voronoi::build_voronoi_cells': stop_bvc,
          'Option::map_or': lambda i, st, a, c: Opaque('cell_is_active')}
    if which == 'direct':
        name = engine.find_fn(funcs, r'voronoi::<impl at src/voronoi.rs:\d+:\d+: \d+:\d+>::build_internal$')
        args = [Ref(('H', 1)), none(), anchor, width, FR.dimv(dim), z3.Bool('periodic')]
    else:
        name = engine.find_fn(funcs, r'voronoi::<impl at src/voronoi.rs:\d+:\d+: \d+:\d+>::build$', ) if False else \
            [n for n in funcs if n.endswith('::build') and 'voronoi.rs' in n and funcs[n].ret_ty.startswith('VoronoiIntegrator')][0]
        args = [Ref(('H', 1)), none(), anchor, width, FR.dimv(dim), z3.Bool('periodic')]
    interp = engine.new_interp(funcs, overrides=ov)
    interp.stopped = []
    st = State()
    st.heap[1] = Agg('array', ())
    try:
        interp.exec_fn(st, name, args, {})
    except Unsupported as e:
        if not interp.stopped:
            raise
    run.add_functions(interp, funcs)
    res = []
    for s in interp.stopped:
        for e in s.events:
            if e[0] == 'cuboid':
                res.append((s, e[1][0], e[1][1]))
            if e[0] == 'build_voronoi_cells':
                res.append((s, e[1][3], e[1][4]))
    return anchor, width, res


def check_normalisation(run, funcs, pid):
    """unused anchor/width components are normalised to -0.5 / 1.0, used ones untouched, identically on both routes"""
    for dim in FR.DIMS:
        used = {'OneD': 1, 'TwoD': 2, 'ThreeD': 3}[dim]
        for which in ('direct', 'integrator'):
            anchor, width, res = normalisation_prefix(run, funcs, which, dim)
            if not res:
                raise Inconclusive('normalisation prefix (%s): SimulationBoundary::cuboid not reached' % which)
            for s, a2, w2 in res:
                conds = []
                for k in range(3):
                    if k < used:
                        conds += [to_z3(a2.items[k]) == anchor.items[k], to_z3(w2.items[k]) == width.items[k]]
                    else:
                        conds += [to_z3(a2.items[k]) == z3.RealVal('-0.5'), to_z3(w2.items[k]) == 1]
                vv, m = run.prove('%s box normalisation [%s route, %s]: unused axes -> anchor -0.5, width 1; used axes untouched' % (pid, which, dim),
                                  pcs(s), z3.Not(z3.And(conds)), timeout=20, on_sat='caller')
                if vv == 'sat':
                    p = {'kind': 'normalisation', 'dim': dim, 'anchor': [3.25, 7.5, -2.0], 'width': [2.0, 4.0, 8.0]}
                    bad = check_normalisation_native(p)
                    if bad:
                        run.violation('%s box normalisation (%s route, %s): %s' % (pid, which, dim, bad), engine.save_replay(pid, p))
                    else:
                        run.suspect.append('%s box normalisation (%s, %s): counterexample does not reproduce natively' % (pid, which, dim))


def check_normalisation_native(p, profile='debug'):
    d = {'OneD': 1, 'TwoD': 2, 'ThreeD': 3}[p['dim']]
    line = 'integrator_prefix %d %s %s' % (d, ' '.join(engine.f2s(x) for x in p['anchor']), ' '.join(engine.f2s(x) for x in p['width']))
    o = engine.native([line], profile)[0]
    if o[0] != 'ok':
        return 'native call panicked'
    v = [float(x) for x in o[1:]]
    va, vw, ia, iw = v[0:3], v[3:6], v[6:9], v[9:12]
    for k in range(3):
        ea = p['anchor'][k] if k < d else -0.5
        ew = p['width'][k] if k < d else 1.0
        for nm, got, exp in (('Voronoi anchor', va[k], ea), ('Voronoi width', vw[k], ew), ('VoronoiIntegrator anchor', ia[k], ea), ('VoronoiIntegrator width', iw[k], ew)):
            if got != exp:
                return '%s component %d is %r, expected %r' % (nm, k, got, exp)
    return None


def replay(d):
    if d.get('kind') == 'cell_loop':
        bad = check_cell_loop_native(d)
        print(bad)
        return 1 if bad else 0
    k = d['kind']
    if k == 'unconstructed_idx':
        bad = check_unconstructed_native(d)
    elif k == 'partial_mask':
        bad = check_partial_mask_native(d)
    elif k == 'sym_loop':
        bad = check_sym_loop_native(d)
    elif k == 'normalisation':
        bad = check_normalisation_native(d)
    elif k == 'face_loops':
        bad = check_face_loops_native(d, d.get('profile', 'debug'))
    else:
        raise Inconclusive('unknown replay kind ' + k)
    print(bad)
    return 1 if bad else 0
