//! Native replay / oracle binary: runs the *real* functions of meshless_voronoi (through the
//! verif-hooks feature) on concrete arguments given as text lines on stdin.
//! One output line per input line: `ok <values..>` or `panic <message>`.
use glam::DVec3;
use meshless_voronoi::geometry::{intersect_planes, signed_area_tri, signed_volume_tet, Plane, Sphere};
use meshless_voronoi::verif_hooks as vh;
use meshless_voronoi::{ConvexCell, Dimensionality, HalfSpace, Vertex, Voronoi, VoronoiIntegrator};
use std::io::{self, BufRead, Write};
use std::panic;

struct Args<'a> {
    it: std::str::SplitWhitespace<'a>,
}

impl<'a> Args<'a> {
    fn s(&mut self) -> &'a str {
        self.it.next().expect("missing argument")
    }
    fn f(&mut self) -> f64 {
        let t = self.s();
        if let Some(h) = t.strip_prefix("0x") {
            f64::from_bits(u64::from_str_radix(h, 16).expect("hex"))
        } else {
            t.parse::<f64>().expect("float")
        }
    }
    fn i(&mut self) -> i64 {
        self.s().parse::<i64>().expect("int")
    }
    fn u(&mut self) -> usize {
        self.s().parse::<usize>().expect("usize")
    }
    fn b(&mut self) -> bool {
        self.s() == "1"
    }
    fn v(&mut self) -> DVec3 {
        DVec3::new(self.f(), self.f(), self.f())
    }
    fn iv(&mut self) -> [i64; 3] {
        [self.i(), self.i(), self.i()]
    }
    fn dim(&mut self) -> Dimensionality {
        match self.u() {
            1 => Dimensionality::OneD,
            2 => Dimensionality::TwoD,
            _ => Dimensionality::ThreeD,
        }
    }
    fn opt_u(&mut self) -> Option<usize> {
        let t = self.s();
        if t == "-" {
            None
        } else {
            Some(t.parse().expect("usize"))
        }
    }
    fn opt_v(&mut self) -> Option<DVec3> {
        if self.b() {
            Some(self.v())
        } else {
            None
        }
    }
    fn done(&mut self) -> bool {
        self.it.clone().next().is_none()
    }
}

fn fv(v: DVec3) -> String {
    format!("{:e} {:e} {:e}", v.x, v.y, v.z)
}

fn ou(o: Option<usize>) -> String {
    match o {
        Some(u) => u.to_string(),
        None => "-".to_string(),
    }
}

fn ov(o: Option<DVec3>) -> String {
    match o {
        Some(v) => format!("1 {}", fv(v)),
        None => "0".to_string(),
    }
}

/// tetrahedral cell with 4 planes, labels/shifts given; used to drive the face rules natively
fn tet_cell(a: &mut Args) -> ConvexCell<vh::WithoutFaces> {
    let idx = a.u();
    let dim = a.dim();
    let loc = DVec3::new(0.25, 0.25, 0.25);
    let normals = [DVec3::X, DVec3::Y, DVec3::Z, -DVec3::ONE.normalize()];
    let points = [DVec3::ZERO, DVec3::ZERO, DVec3::ZERO, DVec3::X];
    let mut planes = vec![];
    for k in 0..4 {
        let right = a.opt_u();
        let shift = a.opt_v();
        let n = if a.b() { a.v() } else { normals[k] };
        planes.push(HalfSpace::new(n, points[k], right, shift));
    }
    let duals = [[0usize, 2, 1], [0, 1, 3], [1, 2, 3], [0, 3, 2]];
    let locs = [DVec3::ZERO, DVec3::X, DVec3::Y, DVec3::Z];
    let vertices = (0..4).map(|k| Vertex::vh_new(locs[k], duals[k], 1.0)).collect();
    ConvexCell::vh_new(loc, idx, planes, vertices, dim)
}

fn run(line: &str) -> String {
    let mut a = Args {
        it: line.split_whitespace(),
    };
    let cmd = a.s();
    match cmd {
        "insphere_exact" => {
            let (p, q, r, s, t) = (a.iv(), a.iv(), a.iv(), a.iv(), a.iv());
            format!("{:e}", vh::in_sphere_test_exact(&p, &q, &r, &s, &t))
        }
        "insphere_float" => {
            let (p, q, r, s, t) = (a.v(), a.v(), a.v(), a.v(), a.v());
            format!("{:e}", vh::in_sphere_test(p, q, r, s, t))
        }
        "intersect_planes" => {
            let p0 = Plane::new(a.v(), a.v());
            let p1 = Plane::new(a.v(), a.v());
            let p2 = Plane::new(a.v(), a.v());
            fv(intersect_planes(&p0, &p1, &p2))
        }
        "project_onto" => {
            let p = Plane::new(a.v(), a.v());
            fv(p.project_onto(a.v()))
        }
        "project_onto_intersection" => {
            let p = Plane::new(a.v(), a.v());
            let q = Plane::new(a.v(), a.v());
            fv(p.project_onto_intersection(&q, a.v()))
        }
        "signed_volume_tet" => format!("{:e}", signed_volume_tet(a.v(), a.v(), a.v(), a.v())),
        "signed_area_tri" => format!("{:e}", signed_area_tri(a.v(), a.v(), a.v(), a.v())),
        "sphere2" => {
            let s = Sphere::from_two_points(a.v(), a.v());
            format!("{} {:e}", fv(s.center), s.radius)
        }
        "sphere3" => {
            let s = Sphere::from_three_points(a.v(), a.v(), a.v());
            format!("{} {:e}", fv(s.center), s.radius)
        }
        "sphere4" => {
            let s = Sphere::from_four_points(a.v(), a.v(), a.v(), a.v());
            format!("{} {:e}", fv(s.center), s.radius)
        }
        "sphere_extend" => {
            let s = Sphere::new(a.v(), a.f()).extend(a.v());
            format!("{} {:e}", fv(s.center), s.radius)
        }
        "sphere_contains" => {
            let s = Sphere::new(a.v(), a.f());
            format!("{}", s.contains(a.v()) as u8)
        }
        "iloc" => {
            // iloc <dim> <periodic> anchor width loc
            let dim = a.dim();
            let per = a.b();
            let b = vh::Boundary::cuboid(a.v(), a.v(), per, dim);
            let loc = a.v();
            let r = b.rescaled(loc);
            let il = b.iloc(loc);
            format!("{} {} {} {}", il[0], il[1], il[2], fv(r))
        }
        "cuboid_planes" => {
            let dim = a.dim();
            let per = a.b();
            let b = vh::Boundary::cuboid(a.v(), a.v(), per, dim);
            b.planes()
                .iter()
                .map(|h| format!("{} {}", fv(h.plane.n), fv(h.plane.p)))
                .collect::<Vec<_>>()
                .join(" ")
        }
        "halfspace_new" => {
            let h = HalfSpace::new(a.v(), a.v(), None, None);
            format!("{:e} {:e}", h.vh_d(), h.vh_errb())
        }
        "halfspace_clip" => {
            let h = HalfSpace::new(a.v(), a.v(), None, None);
            format!("{:e}", h.clip(a.v()))
        }
        "right_loc" => {
            // right_loc <dim> n p right shift | left_idx | ngen locs...
            let dim = a.dim();
            let n = a.v();
            let p = a.v();
            let right = a.opt_u();
            let shift = a.opt_v();
            let left = a.u();
            let ng = a.u();
            let gens: Vec<vh::Generator> = (0..ng).map(|k| vh::generator_new(k, a.v(), dim)).collect();
            let h = HalfSpace::new(n, p, right, shift);
            fv(h.right_loc(left, &gens))
        }
        "gen_new" => {
            let dim = a.dim();
            fv(vh::generator_new(0, a.v(), dim).loc())
        }
        "wrapped_point" => {
            let g = vh::generator_new(0, a.v(), Dimensionality::ThreeD);
            let p = a.v().to_array();
            let s = a.v().to_array();
            format!("{:e}", vh::rtree_nn::wrapped_point_distance_2(&g, &p, &s))
        }
        "wrapped_env" => {
            let lo = a.v().to_array();
            let hi = a.v().to_array();
            let p = a.v().to_array();
            let s = a.v().to_array();
            format!("{:e}", vh::rtree_nn::wrapped_envelope_distance_2(lo, hi, &p, &s))
        }
        "nn_sequence" => {
            // nn_sequence <dim> <periodic> width query limit n locs..
            let dim = a.dim();
            let per = a.b();
            let width = a.v();
            let q = a.v();
            let limit = a.u();
            let n = a.u();
            let gens: Vec<vh::Generator> = (0..n).map(|k| vh::generator_new(k, a.v(), dim)).collect();
            vh::rtree_nn::nn_sequence(&gens, q, width, dim, per, limit)
                .iter()
                .map(|(i, s)| format!("{} {}", i, ov(*s)))
                .collect::<Vec<_>>()
                .join(" ")
        }
        "face_rule" => {
            // face_rule <idx> <dim> 4x(right shift? normal?) <has_mask> <nmask> bits..
            let cell = tet_cell(&mut a);
            let has_mask = a.b();
            let n = a.u();
            let mask: Vec<bool> = (0..n).map(|_| a.b()).collect();
            let mut faces = vec![];
            let c = meshless_voronoi::VoronoiCell::vh_from_convex_cell(
                &cell,
                &mut faces,
                if has_mask { Some(&mask[..]) } else { None },
            );
            let mut out = format!("{} {}", c.vh_idx(), faces.len());
            for f in &faces {
                out += &format!(" {} {} {} {}", f.left(), ou(f.right()), ov(f.shift()), fv(f.normal()));
            }
            out
        }
        "face_integrals" => {
            // face_integrals <sym 0/1> <idx> <dim> 4x(..) <nmask> bits..
            let sym = a.b();
            let cell = tet_cell(&mut a);
            let n = a.u();
            let mask: Vec<bool> = (0..n).map(|_| a.b()).collect();
            let res = if sym {
                cell.compute_face_integrals_sym::<(), meshless_voronoi::integrals::AreaIntegral>((), &mask)
            } else {
                cell.compute_face_integrals::<(), meshless_voronoi::integrals::AreaIntegral>(())
            };
            let mut out = format!("{}", res.len());
            for f in &res {
                out += &format!(" {} {} {} {:e}", f.left(), ou(f.right()), ov(f.shift()), f.integral().area);
            }
            out
        }
        "build" | "build_via_integrator" => {
            // build <dim> <periodic> anchor width <has_mask> n (loc mask)..
            let dim = a.dim();
            let per = a.b();
            let anchor = a.v();
            let width = a.v();
            let has_mask = a.b();
            let n = a.u();
            let mut locs = vec![];
            let mut mask = vec![];
            for _ in 0..n {
                locs.push(a.v());
                mask.push(a.b());
            }
            let vor = if cmd == "build_via_integrator" {
                let vi = VoronoiIntegrator::build(&locs, if has_mask { Some(&mask[..]) } else { None }, anchor, width, dim, per);
                Voronoi::from(&vi)
            } else if has_mask {
                Voronoi::build_partial(&locs, &mask, anchor, width, dim, per)
            } else {
                Voronoi::build(&locs, anchor, width, dim, per)
            };
            let mut out = format!("cells {}", vor.cells().len());
            for (i, c) in vor.cells().iter().enumerate() {
                out += &format!(" | {} {:e} {} {:e} {} {}", i, c.volume(), fv(c.centroid()), c.safety_radius(), c.face_connections_offset(), c.face_count());
                out += " ngb";
                for nb in c.neighbour_ids(&vor) {
                    out += &format!(" {}", nb);
                }
            }
            out += &format!(" || faces {}", vor.faces().len());
            for f in vor.faces() {
                out += &format!(" | {} {} {} {:e} {} {}", f.left(), ou(f.right()), ov(f.shift()), f.area(), fv(f.centroid()), fv(f.normal()));
            }
            out += " || conn";
            for c in vor.cell_face_connections() {
                out += &format!(" {}", c);
            }
            out
        }
        "integrator_prefix" => {
            // normalisation of anchor/width as seen through the two public routes on an empty generator list
            let dim = a.dim();
            let anchor = a.v();
            let width = a.v();
            let v = Voronoi::build(&[], anchor, width, dim, false);
            let vi = VoronoiIntegrator::build(&[], None, anchor, width, dim, false);
            format!("{} {} {} {}", fv(v.anchor()), fv(v.width()), fv(vi.vh_anchor()), fv(vi.vh_width()))
        }
        "face_collect_finalize" => {
            // face_collect_finalize <ntri> (v0 v1 v2).. gen   -> area centroid normal   (real VoronoiFace init/collect/finalize)
            let nt = a.u();
            let tris: Vec<[DVec3; 3]> = (0..nt).map(|_| [a.v(), a.v(), a.v()]).collect();
            let gen = a.v();
            let planes = vec![HalfSpace::new(DVec3::Z, DVec3::new(0., 0., 0.3), None, None)];
            let cell = ConvexCell::vh_new(gen, 0, planes, vec![], Dimensionality::ThreeD);
            let mut f = meshless_voronoi::VoronoiFace::vh_init(&cell, 0);
            for t in &tris {
                f.vh_collect(t[0], t[1], t[2], gen);
            }
            let f = f.vh_finalize();
            format!("{:e} {} {}", f.area(), fv(f.centroid()), fv(f.normal()))
        }
        "cycle_history" => {
            // cycle_history <period>: one SimpleCycle over 9 planes: init(6,7,8), then period-1 resets over planes 0..5, then init(0,1,2) and
            // try_extend(6,1,0) -> "<Ok|Err> <len> <cycle..>"  (a fresh cycle gives Ok 4 with planes {0,1,2,6})
            let period = a.u();
            let mut c = vh::SimpleCycle::new(9);
            c.init(6, 7, 8);
            for k in 0..period - 1 {
                let x = k % 4;
                c.init(x, x + 1, x + 2);
            }
            c.init(0, 1, 2);
            let r = c.try_extend(6, 1, 0);
            let seq: Vec<String> = c.iter().take(c.len).map(|x| x.to_string()).collect();
            format!("{} {} {}", if r.is_ok() { "Ok" } else { "Err" }, c.len, seq.join(" "))
        }
        "polytope_ring" => {
            // polytope_ring <n>: two generators on the axis of a ring of n others (radii slightly varied); only the two axis cells are
            // constructed; with faces: every vertex in exactly three faces, V - E + F = 2, counts agree with the lists, the big faces have n vertices
            let n = a.u();
            let mut gens = vec![DVec3::new(0.5, 0.5, 0.35), DVec3::new(0.5, 0.5, 0.65)];
            for k in 0..n {
                let t = 2. * std::f64::consts::PI * (k as f64 + 0.37) / n as f64;
                let r = 0.3 * (1. + 0.001 * ((k * 7919) % 13) as f64 / 13.);
                gens.push(DVec3::new(0.5 + r * t.cos(), 0.5 + r * t.sin(), 0.5));
            }
            let mut mask = vec![false; n + 2];
            mask[0] = true;
            mask[1] = true;
            let vi = VoronoiIntegrator::build(&gens, Some(&mask[..]), DVec3::ZERO, DVec3::ONE, Dimensionality::ThreeD, false).with_faces();
            let mut bad: Vec<String> = vec![];
            for cell in vi.cells_iter() {
                let nv = cell.vertices.len();
                let nf = cell.face_count();
                let mut inc = vec![0usize; nv];
                let mut half = 0usize;
                let mut biggest = 0usize;
                for f in 0..nf {
                    let poly = cell.face_vertices(f);
                    if poly.len() != cell.face_vertex_count(f) {
                        bad.push(format!("cell {} face {}: face_vertex_count {} but {} vertices listed", cell.idx, f, cell.face_vertex_count(f), poly.len()));
                    }
                    biggest = biggest.max(poly.len());
                    half += poly.len();
                    for &v in poly {
                        inc[v] += 1;
                    }
                }
                let wrong = inc.iter().filter(|&&c| c != 3).count();
                if wrong > 0 {
                    bad.push(format!("cell {}: {} of {} vertices do not lie in exactly three faces", cell.idx, wrong, nv));
                }
                if half % 2 != 0 || (nv as i64) - (half as i64) / 2 + (nf as i64) != 2 {
                    bad.push(format!("cell {}: V - E + F = {} - {}/2 + {} != 2", cell.idx, nv, half, nf));
                }
                if biggest <= 255 && n > 512 {
                    bad.push(format!("cell {}: largest face lists {} vertices (ring of {})", cell.idx, biggest, n));
                }
            }
            if bad.is_empty() {
                "valid".to_string()
            } else {
                bad[..bad.len().min(3)].join(" ; ")
            }
        }
        "polytope_check" => {
            // polytope_check <kind>: cells with face information of an fcc lattice (exact ties, 4-valent corners), a cubic lattice and a
            // generic set: every vertex lies in exactly three faces, every face is a polygon (>= 3 vertices, no repeated index),
            // V - E + F = 2, face_vertex_count agrees with face_vertices
            let kind = a.u();
            let mut gens = vec![];
            match kind {
                0 => {
                    let basis = [DVec3::new(0.25, 0.25, 0.25), DVec3::new(0.75, 0.75, 0.25), DVec3::new(0.75, 0.25, 0.75), DVec3::new(0.25, 0.75, 0.75)];
                    for i in 0..2 {
                        for j in 0..2 {
                            for k in 0..2 {
                                for b in basis {
                                    gens.push((DVec3::new(i as f64, j as f64, k as f64) + b) * 0.5);
                                }
                            }
                        }
                    }
                }
                1 => {
                    for i in 0..3 {
                        for j in 0..3 {
                            for k in 0..3 {
                                gens.push(DVec3::new(0.125 + 0.25 * i as f64, 0.125 + 0.25 * j as f64, 0.125 + 0.25 * k as f64));
                            }
                        }
                    }
                }
                _ => {
                    gens = vec![DVec3::new(0.2, 0.3, 0.4), DVec3::new(0.7, 0.6, 0.5), DVec3::new(0.5, 0.8, 0.2), DVec3::new(0.8, 0.2, 0.7), DVec3::new(0.3, 0.7, 0.8)];
                }
            }
            let vi = VoronoiIntegrator::build(&gens, None, DVec3::ZERO, DVec3::ONE, Dimensionality::ThreeD, false).with_faces();
            let mut bad: Vec<String> = vec![];
            for cell in vi.cells_iter() {
                let nv = cell.vertices.len();
                let nf = cell.face_count();
                let mut inc = vec![0usize; nv];
                let mut half = 0usize;
                for f in 0..nf {
                    let poly = cell.face_vertices(f);
                    if poly.len() != cell.face_vertex_count(f) {
                        bad.push(format!("cell {} face {}: face_vertex_count disagrees with face_vertices", cell.idx, f));
                    }
                    if poly.len() < 3 {
                        bad.push(format!("cell {} face {}: {} vertices", cell.idx, f, poly.len()));
                    }
                    half += poly.len();
                    for (w, &v) in poly.iter().enumerate() {
                        inc[v] += 1;
                        if poly[..w].contains(&v) {
                            bad.push(format!("cell {} face {}: vertex {} repeated", cell.idx, f, v));
                        }
                    }
                }
                for (v, &c) in inc.iter().enumerate() {
                    if c != 3 {
                        bad.push(format!("cell {}: vertex {} lies in {} faces", cell.idx, v, c));
                    }
                }
                if half % 2 != 0 || (nv as i64) - (half as i64) / 2 + (nf as i64) != 2 {
                    bad.push(format!("cell {}: V - E + F = {} - {}/2 + {} != 2", cell.idx, nv, half, nf));
                }
                if bad.len() > 3 {
                    break;
                }
            }
            if bad.is_empty() {
                "valid".to_string()
            } else {
                bad[..bad.len().min(3)].join(" ; ")
            }
        }
        "withdata_alignment" => {
            // withdata_alignment <ndata> <n> bits..: which cells are paired with one of the first <ndata> data entries by the three
            // *_with_data methods (Data = (): the only data type a downstream crate can use, see known finding); prints the `left`
            // labels reached by the two face variants and the number of cell integrals
            use meshless_voronoi::integrals::{AreaIntegral, VolumeIntegral};
            let ndata = a.u();
            let n = a.u();
            let mask: Vec<bool> = (0..n).map(|_| a.b()).collect();
            let gens: Vec<DVec3> = (0..n)
                .map(|k| DVec3::new((k as f64 + 0.5) / n as f64, 0.5 + 0.07 * ((k * 7 % 5) as f64 - 2.), 0.5 + 0.05 * ((k * 3 % 4) as f64 - 1.5)))
                .collect();
            let vi = VoronoiIntegrator::build(&gens, Some(&mask[..]), DVec3::ZERO, DVec3::ONE, Dimensionality::ThreeD, false);
            let data = vec![(); ndata];
            let nc = vi.compute_cell_integrals_with_data::<(), VolumeIntegral>(&data).len();
            let mut lf: Vec<usize> = vi.compute_face_integrals_with_data::<(), AreaIntegral>(&data).iter().map(|f| f.left()).collect();
            lf.dedup();
            let mut ls: Vec<usize> = vi.compute_face_integrals_sym_with_data::<(), AreaIntegral>(&data).iter().map(|f| f.left()).collect();
            ls.dedup();
            format!("{} | {} | {}", nc, lf.iter().map(|x| x.to_string()).collect::<Vec<_>>().join(" "), ls.iter().map(|x| x.to_string()).collect::<Vec<_>>().join(" "))
        }
        "cell_volumes" => {
            // cell_volumes <dim>: three generators on a line along x in the box [0,2]x[0,3]x[0,5] (unused axes: unit thickness);
            // VolumeIntegral through the integrator, followed by the closed-form measures
            let dim = a.dim();
            let sc = a.f();
            let gens = [DVec3::new(0.3, 1.5, 2.5) * sc, DVec3::new(0.9, 1.5, 2.5) * sc, DVec3::new(1.7, 1.5, 2.5) * sc];
            let width = DVec3::new(2., 3., 5.) * sc;
            let vi = VoronoiIntegrator::build(&gens, None, DVec3::ZERO, width, dim, false);
            let vols = vi.compute_cell_integrals::<meshless_voronoi::integrals::VolumeIntegral>();
            let cross = match dim {
                Dimensionality::OneD => 1.,
                Dimensionality::TwoD => 3. * sc,
                Dimensionality::ThreeD => 15. * sc * sc,
            };
            let exact = [0.6 * sc * cross, (1.3 - 0.6) * sc * cross, (2.0 - 1.3) * sc * cross];
            let mut out = String::new();
            for v in &vols {
                out += &format!("{:e} ", v.volume);
            }
            for e in &exact {
                out += &format!("{:e} ", e);
            }
            out
        }
        "finalize_twins" => {
            // finalize_twins <ntri> (v0 v1 v2).. gen -> (area centroid) of the stored face integral, (area centroid) of AreaCentroidIntegral
            use meshless_voronoi::integrals::{AreaCentroidIntegral, FaceIntegral};
            let nt = a.u();
            let tris: Vec<[DVec3; 3]> = (0..nt).map(|_| [a.v(), a.v(), a.v()]).collect();
            let gen = a.v();
            let planes = vec![HalfSpace::new(DVec3::Z, DVec3::new(0., 0., 0.3), None, None)];
            let cell = ConvexCell::vh_new(gen, 0, planes, vec![], Dimensionality::ThreeD);
            let mut f = meshless_voronoi::VoronoiFace::vh_init(&cell, 0);
            let mut g = <AreaCentroidIntegral as FaceIntegral>::init(&cell, 0);
            for t in &tris {
                f.vh_collect(t[0], t[1], t[2], gen);
                g.collect(t[0], t[1], t[2], gen);
            }
            let f = f.vh_finalize();
            let g = g.finalize();
            format!("{:e} {} {:e} {}", f.area(), fv(f.centroid()), g.area, fv(g.centroid))
        }
        "clip_init_cell" => {
            // clip_init_cell anchor width g q rot -> vertices (dual, loc) of the initial cell of g clipped by the bisector towards q;
            // the vertex array is rotated by `rot` before clipping
            let anchor = a.v();
            let width = a.v();
            let g = a.v();
            let q = a.v();
            let rot = a.u();
            let b = vh::Boundary::cuboid(anchor, width, false, Dimensionality::ThreeD);
            let gens = vec![vh::generator_new(0, g, Dimensionality::ThreeD), vh::generator_new(1, q, Dimensionality::ThreeD)];
            let mut cell = ConvexCell::vh_init(g, 0, &b);
            let n = cell.vertices.len();
            cell.vertices.rotate_left(rot % n);
            let dx = g - q;
            let dist = dx.length();
            cell.vh_clip_by_plane(HalfSpace::new(dx / dist, 0.5 * (g + q), Some(1), None), &gens, &b);
            let mut out = format!("{}", cell.vertices.len());
            for v in &cell.vertices {
                out += &format!(" {} {} {} {}", v.dual[0], v.dual[1], v.dual[2], fv(v.loc));
            }
            out
        }
        "welzl" | "epos6" => {
            let n = a.u();
            let pts: Vec<DVec3> = (0..n).map(|_| a.v()).collect();
            let b = if cmd == "welzl" { vh::bounding_sphere::welzl(&pts) } else { vh::bounding_sphere::epos6(&pts) };
            format!("{} {:e}", fv(b.center), b.radius)
        }
        "epos6_spheres" => {
            let n = a.u();
            let sp: Vec<Sphere> = (0..n).map(|_| Sphere::new(a.v(), a.f())).collect();
            let b = vh::bounding_sphere::epos6_of_spheres(&sp);
            format!("{} {:e}", fv(b.center), b.radius)
        }
        "cell_min_dist" => {
            // cell_min_dist loc width pos  -> closest_loc, min_distance_squared, min_distance_to_face of the single grid cell [loc, loc+width]
            let loc = a.v();
            let w = a.v();
            let pos = a.v();
            let sp = vh::space::SpaceHook::new(loc, w, w.max_element() * 1.5);
            assert!(sp.cell_count() == 1);
            format!("{} {:e} {:e}", fv(sp.cell_closest_loc(0, pos)), sp.cell_min_distance_squared(0, pos), sp.cell_min_distance_to_face(0, pos))
        }
        "cell_with_faces" => {
            // ConvexCell::with_faces on a cell of a 1D / 2D tessellation (must panic)
            let dim = a.dim();
            let vi = VoronoiIntegrator::build(&[DVec3::new(0.3, 0.4, 0.5), DVec3::new(0.7, 0.6, 0.5)], None, DVec3::ZERO, DVec3::ONE, dim, false);
            let cell = vi.get_cell_at(0).unwrap().clone().with_faces();
            format!("{}", cell.face_count())
        }
        "cell_state_roundtrip" => {
            // clone / with_faces / discard_faces keep everything they do not mention
            let gens = [DVec3::new(0.2, 0.3, 0.4), DVec3::new(0.7, 0.6, 0.5), DVec3::new(0.5, 0.8, 0.2), DVec3::new(0.8, 0.2, 0.7)];
            let vi = VoronoiIntegrator::build(&gens, None, DVec3::ZERO, DVec3::ONE, Dimensionality::ThreeD, false);
            let c0 = vi.get_cell_at(1).unwrap();
            let mut diff: Vec<String> = vec![];
            fn key<M: meshless_voronoi::ConvexCellMarker + 'static>(c: &ConvexCell<M>) -> String {
                let mut s = format!("idx {} loc {:?} sr {:e} dim {:?} planes", c.idx, c.loc, c.vh_safety_radius(), c.vh_dimensionality());
                for p in &c.clipping_planes {
                    s += &format!(" [{:?} {:?} {:?} {:?}]", p.normal(), p.plane.p, p.right_idx, p.shift);
                }
                s += " vertices";
                for v in &c.vertices {
                    s += &format!(" [{:?} {:?}]", v.loc, v.dual);
                }
                s
            }
            fn faces_key(c: &ConvexCell<meshless_voronoi::WithFaces>) -> String {
                if !c.vh_has_face_data() {
                    return "NO FACE DATA".to_string();
                }
                let mut s = format!("{} faces", c.face_count());
                for f in 0..c.face_count() {
                    s += &format!(" [{:?} {:?} {:?}]", c.neighbour(f), c.shift(f), c.face_vertices(f));
                }
                s
            }
            let k0 = key(c0);
            if k0 != key(&c0.clone()) {
                diff.push("clone of a cell without faces differs from the cell".into());
            }
            let wf = c0.clone().with_faces();
            if k0 != key(&wf) {
                diff.push(format!("with_faces changes the cell: {} -> {}", k0, key(&wf)));
            }
            let wfc = wf.clone();
            if key(&wf) != key(&wfc) || faces_key(&wf) != faces_key(&wfc) {
                diff.push(format!("clone of a cell with faces differs from the cell: faces {} -> {}", faces_key(&wf), faces_key(&wfc)));
            }
            let d = wf.clone().discard_faces();
            if k0 != key(&d) || d.vh_has_face_data() {
                diff.push(format!("discard_faces changes the cell / keeps face data: {} -> {}", k0, key(&d)));
            }
            if faces_key(&d.with_faces()) != faces_key(&wf) {
                diff.push("discard_faces().with_faces() is not the identity".into());
            }
            if diff.is_empty() {
                "same".to_string()
            } else {
                diff.join(" ; ")
            }
        }
        "integrator_with_faces_mask" => {
            // build(mask) -> with_faces() must keep everything but the face data: compare faces / safety radii / symmetric integral count
            let gens = [DVec3::new(0.2, 0.3, 0.4), DVec3::new(0.7, 0.6, 0.5), DVec3::new(0.5, 0.8, 0.2), DVec3::new(0.8, 0.2, 0.7)];
            let mask = [false, true, false, true];
            let vi = VoronoiIntegrator::build(&gens, Some(&mask), DVec3::ZERO, DVec3::ONE, Dimensionality::ThreeD, false);
            let v1 = Voronoi::from(&vi);
            let n1 = vi.compute_face_integrals_sym::<meshless_voronoi::integrals::AreaIntegral>().len();
            let vf = vi.with_faces();
            let v2 = Voronoi::from(&vf);
            let n2 = vf.compute_face_integrals_sym::<meshless_voronoi::integrals::AreaIntegral>().len();
            let mut diff = vec![];
            if v1.faces().len() != v2.faces().len() {
                diff.push(format!("faces {} vs {}", v1.faces().len(), v2.faces().len()));
            }
            if n1 != n2 {
                diff.push(format!("symmetric face integrals {} vs {}", n1, n2));
            }
            for (c1, c2) in v1.cells().iter().zip(v2.cells().iter()) {
                if c1.safety_radius().to_bits() != c2.safety_radius().to_bits() {
                    diff.push(format!("safety radius {:e} vs {:e}", c1.safety_radius(), c2.safety_radius()));
                }
                if (c1.volume() - c2.volume()).abs() > 1e-12 {
                    diff.push(format!("volume {:e} vs {:e}", c1.volume(), c2.volume()));
                }
            }
            if v1.cell_face_connections() != v2.cell_face_connections() {
                diff.push("connectivity differs".to_string());
            }
            if diff.is_empty() {
                "same".to_string()
            } else {
                diff.join(" ; ")
            }
        }
        "accessors_periodic" => {
            // two generators, periodic 3D: cells neighbour their own images; compare accessors with the face integrals
            let gens = [DVec3::new(0.3, 0.5, 0.5), DVec3::new(0.7, 0.5, 0.5)];
            let vi = VoronoiIntegrator::build(&gens, None, DVec3::ZERO, DVec3::new(1., 0.4, 0.4), Dimensionality::ThreeD, true).with_faces();
            let mut bad = 0;
            for cell in vi.cells_iter() {
                let fi = cell.compute_face_integrals::<(), meshless_voronoi::integrals::AreaIntegral>(());
                for (k, f) in fi.iter().enumerate() {
                    if cell.neighbour(k) != f.right() || cell.shift(k) != f.shift() {
                        bad += 1;
                    }
                }
            }
            format!("{}", bad)
        }
        "face_loops_vs_faces" => {
            // per cell: areas reported by the non-symmetric and the symmetric face-integral loops vs the faces stored in the compact
            // tessellation (three independent loops of the library over the same decomposition)
            let dim = a.dim();
            let per = a.b();
            let gens = [DVec3::new(0.2, 0.3, 0.4), DVec3::new(0.7, 0.6, 0.5), DVec3::new(0.5, 0.8, 0.2), DVec3::new(0.8, 0.2, 0.7)];
            let mask = [true, false, true, true];
            let vi = VoronoiIntegrator::build(&gens, Some(&mask), DVec3::ZERO, DVec3::ONE, dim, per);
            let vor = Voronoi::from(&vi);
            let ns = vi.compute_face_integrals::<meshless_voronoi::integrals::AreaIntegral>();
            let sy = vi.compute_face_integrals_sym::<meshless_voronoi::integrals::AreaIntegral>();
            let mut out = String::new();
            for (c, cell) in vor.cells().iter().enumerate() {
                if !mask[c] {
                    continue;
                }
                let stored: f64 = cell.faces(&vor).map(|f| f.area()).sum();
                let nstored = cell.face_count();
                let a_ns: f64 = ns.iter().filter(|f| f.left() == c).map(|f| f.integral().area).sum();
                let n_ns = ns.iter().filter(|f| f.left() == c).count();
                out += &format!("{} {} {:e} {} {:e} ", c, nstored, stored, n_ns, a_ns);
            }
            out += &format!("| {} {}", sy.len(), vor.faces().len());
            out
        }
        "space_cells" => {
            // space_cells anchor width max_cell_width -> cdim, then per cell: loc width
            let sp = vh::space::SpaceHook::new(a.v(), a.v(), a.f());
            let cd = sp.cdim();
            let mut out = format!("{} {} {} {}", cd[0], cd[1], cd[2], sp.cell_count());
            for c in 0..sp.cell_count() {
                out += &format!(" {} {}", fv(sp.cell_loc(c)), fv(sp.cell_width(c)));
            }
            out
        }
        "space_knn" => {
            // space_knn anchor width max_cell_width k n locs..
            let mut sp = vh::space::SpaceHook::new(a.v(), a.v(), a.f());
            let k = a.u();
            let n = a.u();
            let pts: Vec<DVec3> = (0..n).map(|_| a.v()).collect();
            sp.add_parts(&pts);
            let nn = sp.knn(k);
            nn.iter()
                .map(|l| l.iter().map(|x| x.to_string()).collect::<Vec<_>>().join(","))
                .collect::<Vec<_>>()
                .join(" ")
        }
        _ => panic!("unknown command {}", cmd),
    }
}

fn main() {
    panic::set_hook(Box::new(|_| {}));
    let stdin = io::stdin();
    let stdout = io::stdout();
    let mut out = stdout.lock();
    for line in stdin.lock().lines() {
        let line = line.unwrap();
        if line.trim().is_empty() {
            continue;
        }
        let l2 = line.clone();
        let r = panic::catch_unwind(move || run(&l2));
        match r {
            Ok(s) => writeln!(out, "ok {}", s).unwrap(),
            Err(e) => {
                let msg = if let Some(s) = e.downcast_ref::<String>() {
                    s.clone()
                } else if let Some(s) = e.downcast_ref::<&str>() {
                    s.to_string()
                } else {
                    "?".to_string()
                };
                writeln!(out, "panic {}", msg.replace('\n', " ")).unwrap()
            }
        }
    }
}
